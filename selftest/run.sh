#!/bin/sh
# Must-fail corpus: every patch in selftest/mutants/<prop>_*.patch is applied to a
# scratch copy of /repo (outside /repo and /verif), the property's check is run on
# it and must report a violation naming the obligation recorded in the patch header
# (line "# expect: <substring of obligation name>"). The copy is removed afterwards.
# usage: selftest/run.sh [property-id ...]
cd "$(dirname "$0")/.."
. ./env.sh
[ -x bin/gocv ] || ./setup.sh >&2
TMP=${TMPDIR:-/var/tmp}
one() {
  p=$1
  prop=$(basename "$p" | cut -d_ -f1)
  expect=$(sed -n 's/^# expect: //p' "$p" | head -1)
  d=$(mktemp -d "$TMP/gocv-selftest-XXXXXX")
  cp -r /repo "$d/repo"
  if ! git -C "$d/repo" apply "$(pwd)/$p"; then
    echo "SELFTEST $p: NOT DETECTED (patch does not apply)"; rm -rf "$d"; return
  fi
  out=$(bin/gocv check -prop "$prop" -tier quick -repo "$d/repo" -scratch "$d/scratch" 2>&1)
  rc=$?
  if [ $rc -eq 1 ] && echo "$out" | grep -q "violated obligation: .*$expect"; then
    echo "SELFTEST $p: detected ($(echo "$out" | grep -c '^VIOLATION') violation lines; expected '$expect')"
  else
    echo "SELFTEST $p: NOT DETECTED (rc=$rc, expected '$expect')"; echo "$out" | tail -4
  fi
  rm -rf "$d"
}
list=""
for p in selftest/mutants/*.patch; do
  [ -e "$p" ] || continue
  prop=$(basename "$p" | cut -d_ -f1)
  if [ $# -gt 0 ]; then case " $* " in *" $prop "*) ;; *) continue;; esac; fi
  list="$list $p"
done
log=$(mktemp "$TMP/gocv-selftest-log-XXXXXX")
# up to 3 mutants at a time (each check uses several cores for the solvers)
running=0
for p in $list; do
  one "$p" >> "$log" 2>&1 &
  running=$((running+1))
  if [ $running -ge 3 ]; then wait; running=0; fi
done
wait
cat "$log"
n=$(grep -c '^SELFTEST' "$log")
bad=$(grep -c 'NOT DETECTED' "$log")
rm -f "$log"
echo "SELFTEST: $n mutants run, $bad not detected"
[ "$bad" -eq 0 ]
