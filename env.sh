# sourced by every script: offline Go 1.26 toolchain
export PATH=/opt/veriftools/go1.26.8/bin:$PATH
export GOFLAGS=-mod=mod GOPROXY=off GOSUMDB=off GOTOOLCHAIN=local
export GOCACHE=${GOCACHE:-/root/.cache/go-build}
