#!/bin/sh
# usage: mkmut.sh <name> <expect> <file> <python-replace-old> <python-replace-new>
name=$1; expect=$2; file=$3; old=$4; new=$5
rm -rf /tmp/mut && cp -r /repo /tmp/mut && cd /tmp/mut
python3 - "$file" "$old" "$new" <<'PY'
import sys
f,old,new=sys.argv[1:4]
s=open(f).read()
assert old in s, "pattern not found: "+old
s=s.replace(old,new,1)
open(f,'w').write(s)
PY
[ $? -eq 0 ] || exit 1
( echo "# expect: $expect"; git diff ) > /verif/selftest/mutants/$name.patch
cd / && rm -rf /tmp/mut
