# Per-property manifest texts (edited by hand; tools/manifest.py turns them into MANIFEST.json).
CLAIMED = {
 "C17": dict(
  text="Every listed obligation (postconditions, representation invariant, loop invariants over map iteration, callback contracts of the iterator, nil/bounds safety) of MemDB get/put/delete/Bucket/CreateBucket/Cancel, memBucket Get/Put/Delete/Iter and cacheBucket Get/Put/Delete is discharged by an SMT solver for all inputs and heaps satisfying the representation invariant, against one abstract map view (pending puts, pending deletes, committed/backend). Flush, cacheBucket.Iter, CacheDB and the Bolt wrapper are outside the contract set and only covered by a bounded stand-in (thorough tier), labelled bounded.",
  note="Trusted: the VC generator and its memory model, go/ssa, the solvers, Go map semantics as modelled (arbitrary iteration order, visited-set exit rule), the abstract backend bucket (spec function bucketVal), bbolt. Values are compared as slice headers (the stores keep the caller's slice), nil == absent.",
  technique="contract-based deductive verification (VC generation over go/ssa + SMT); bounded differential stand-in for Flush/Bolt",
  ref="DESIGN.md §3 C17, §7"),
 "C20": dict(
  text="Bit-vector proofs over the real encodeBIP39Phrase/decodeBIP39Phrase/bip39checksum/SeedFromPhrase/KeyFromSeed/memclr (loops with literal trip counts unrolled under an unwinding assertion): lemma harnesses that only call the real functions prove decode(encode(e)) == e for all 2^128 entropies, that a decodable phrase re-encodes to its own 12 words, that a well-formed phrase decodes iff its 4 checksum bits match, that malformed phrases (wrong count, unknown word) give an error, that the seed depends only on the words (white space insensitive), that KeyFromSeed is a deterministic function of (seed, index) and leaves the seed untouched, plus every index/slice bound. The word-table facts used as axioms are re-established on every run by exhaustive evaluation of the real 2048-entry tables.",
  note="Assumed: strings.Fields/Join model (Fields(Join(ws,\" \")) == ws for blank-free words; sampled 20000x per run), sha256/blake2b/ed25519 seed constructor as deterministic uninterpreted functions, the VC generator, go/ssa, solvers. Error values are compared for nil-ness only.",
  technique="contract-based deductive verification in QF_BV/UF with engine-side quantifier instantiation; exhaustive evaluation of the finite data axioms",
  ref="DESIGN.md §3 C20, §7"),
 "C14": dict(
  text="Pool lookup and submission contracts on the real Manager methods: PoolTransaction/V2PoolTransaction never panic and return the transaction with exactly the requested id or absence, for every id and every pool satisfying the shared-index representation invariant (bounds and id obligations, all ids incl. ids of the other kind); AddPoolTransactions/AddV2PoolTransactions leave both pool slices at their post-revalidation lengths on every error return (all-or-nothing), proved with ghost snapshots and loop invariants incl. the rollback loop. 'known iff all pooled', deep-copy aliasing and the contract of revalidatePool are assumed/not yet discharged and are exercised only by the replay test.",
  note="Assumed contracts: revalidatePool establishes the pool invariant; checkTxnSet and updateV2TransactionProofs do not touch the pool (frame); consensus validators/mid-state, Transaction.ID as a deterministic function, DeepCopy preserves the id. Listener callbacks run with the lock released are modelled as arbitrary state change.",
  technique="contract-based deductive verification (VC generation over go/ssa + SMT, ghost snapshots, loop invariants)",
  ref="DESIGN.md §3 C14, §7"),
 "C19": dict(
  text="Contracts over an abstract Store (ghost maps for best index, states, headers, bodies, supplements, applied set): PruneBlocks removes exactly the bodies of best-chain blocks below the height (all of them, only them, every other body/header/state/index entry untouched, pruned bodies remain a prefix) for every height incl. 0 and beyond the tip, by a loop invariant; MinReorgIndex returns a best-chain index such that every block from it up to the tip has a body and the one below has none; AddBlocks never calls Store.AddState for a block that was already applied (call-site precondition), also after its body was pruned. Equality with an unpruned twin over whole histories and error-not-panic of the other queries are only exercised by the scenario replay (thorough, labelled bounded).",
  note="Assumed: the abstract Store contracts (DBStore is not yet verified against them), store coherence invariants (contiguous best chain, state index of best blocks, record/applied invariants) as preconditions, consensus.ApplyHeader index law and Block.Header().ID() == Block.ID(), reorgTo as arbitrary effect. Sequential reasoning under the manager mutex.",
  technique="contract-based deductive verification (VC generation over go/ssa + SMT, ghost abstract state, quantified loop invariants)",
  ref="DESIGN.md §3 C19, §7"),
 "C04": dict(
  text="UpdatesSince on the real Manager against the abstract Store: never more than max(maxBlocks,0) updates, nil slices on every error return, no panic (incl. pruned or missing records), reverts only while the cursor is off the best chain and applies only once it is on it (loop invariant: once on the best chain the cursor stays on it), every update ends at the cursor (contiguity: revert updates carry the parent state whose index becomes the cursor, apply updates carry the block whose id is the next best index), and when the budget is not exhausted the last update ends at the manager's tip; AddBlocks delivers no listener callback on any error return. The ledger content of the diffs (consensus) and concurrent polls are out of reach; the chunked stale-subscriber scenario is replayed on the real code (bounded).",
  note="Assumed: abstract Store contracts and store coherence as preconditions (contiguous best chain, no block with the zero id), consensus.ApplyBlock/RevertBlock as deterministic functions with ApplyBlock(..).Index.ID == block id, listeners modelled as arbitrary calls made with the lock released.",
  technique="contract-based deductive verification (VC generation over go/ssa + SMT, loop invariants over the abstract store)",
  ref="DESIGN.md §3 C04, §7"),
}

NOT_APPLICABLE = {
 "C12": "eventual convergence of N concurrent nodes is a liveness / whole-history property of a distributed execution; no per-call contract, lock invariant or channel invariant expresses it (DESIGN.md §3 C12)",
}
PENDING_REASON = "contracts designed (DESIGN.md §3) but not yet discharged by the checker; not claimed until a non-empty obligation list is proved"
ALL = ["C%02d" % i for i in range(1, 21)]
