#!/bin/sh
# usage: tools/seedcheck.sh <seed-id> <property> <worktree-seed-dir> [demo pkg dir]
# Confirms a seeded breaking change (build, existing suite, demonstration fails with / passes
# without) in a scratch copy of /repo, then runs the property's check on /repo with the patch
# applied and undoes it. Results are appended to seeded/<seed-id>/RESULT.txt.
id=$1; prop=$2; src=$3
cd /verif && . ./env.sh
mkdir -p seeded/$id && cp $src/patch.diff $src/demo_test.go $src/meta.json seeded/$id/ 2>/dev/null
pkgdir=${4:-$(python3 -c "import json;print(json.load(open('seeded/$id/meta.json')).get('demo_package_dir','.'))")}
out=seeded/$id/RESULT.txt; : > $out
d=$(mktemp -d /var/tmp/gocv-seed-XXXXXX); cp -r /repo $d/repo
cp seeded/$id/demo_test.go $d/repo/$pkgdir/zz_seed_demo_test.go
( cd $d/repo && timeout 300 go test -vet=off -count=1 -run 'Demo|Seed|C[0-9][0-9]' ./$pkgdir >/dev/null 2>&1 ) && echo "demo passes without change: yes" >> $out || echo "demo passes without change: NO" >> $out
if git -C $d/repo apply /verif/seeded/$id/patch.diff; then
  ( cd $d/repo && go build ./... ) && echo "builds: yes" >> $out || echo "builds: NO" >> $out
  ( cd $d/repo && timeout 300 go test -vet=off -count=1 -run 'Demo|Seed|C[0-9][0-9]' ./$pkgdir >/dev/null 2>&1 ) && echo "demo fails with change: NO" >> $out || echo "demo fails with change: yes" >> $out
  rm $d/repo/$pkgdir/zz_seed_demo_test.go
  ( cd $d/repo && timeout 900 go test -vet=off -count=1 ./... >/dev/null 2>&1 ) && echo "suite passes with change: yes" >> $out || echo "suite passes with change: NO" >> $out
else
  echo "patch applies: NO" >> $out
fi
rm -rf $d
# the check itself, on /repo with the patch applied
if [ -n "$(git -C /repo status --porcelain)" ]; then echo "REFUSING: /repo has uncommitted changes; commit them first"; exit 3; fi
git -C /repo apply /verif/seeded/$id/patch.diff && {
  timeout 1200 bin/gocv check -prop $prop -tier quick -scratch /var/tmp/gocv-seedrun-$id > /var/tmp/gocv-seedrun-$id.log 2>&1; rc=$?
  git -C /repo apply -R /verif/seeded/$id/patch.diff || git -C /repo checkout -- .
  echo "check $prop rc=$rc" >> $out
  grep -h "^violated obligation\|^VIOLATION" /var/tmp/gocv-seedrun-$id.log | head -8 >> $out
  rm -rf /var/tmp/gocv-seedrun-$id /var/tmp/gocv-seedrun-$id.log
}
cat $out
