#!/usr/bin/env python3
"""Regenerates /verif/MANIFEST.json from tools/props.py and the hook commits in /repo."""
import json, subprocess, sys, os
sys.path.insert(0, os.path.dirname(__file__))
import props
log = subprocess.run(['git', '-C', '/repo', 'log', '--format=%h %s'], capture_output=True, text=True).stdout.splitlines()
hooks = [l.split()[0] for l in log if l.split(' ', 1)[1].startswith(('verif hook', 'verif:'))]
m = {
 "version": 1,
 "setup_cmd": "./setup.sh",
 "hooks": {
  "guard": "verif",
  "enable": "go build -tags verif (contract files <pkg>/contracts*_verif.go and lemma harnesses <pkg>/lemmas_verif.go are only compiled under this tag; gocv loads /repo with -tags=verif)",
  "baseline_off_cmd": "cd /repo && PATH=/opt/veriftools/go1.26.8/bin:$PATH GOFLAGS=-mod=mod GOPROXY=off GOSUMDB=off GOTOOLCHAIN=local go test -vet=off -count=1 -timeout 25m ./...",
  "source_commits": hooks,
  "add_only": True,
 },
 "engines": [{"name": "gocv", "path": "gocv/", "serves_properties": sorted(props.CLAIMED),
   "kind_free_text": "contract-based deductive verifier for Go written for this task: forward symbolic execution (weakest-precondition style VC generation) over go/ssa NaiveForm of /repo built with -tags=verif, contracts in <pkg>/contracts*_verif.go, obligations discharged by z3 5.1.0 / z3 4.8.12 / cvc5 1.0; replay and bounded stand-ins through go test -overlay"}],
 "checks": [],
 "notes": "Every check rebuilds its verification conditions from /repo's working tree. selftest/run.sh applies the must-fail corpus (selftest/mutants) to scratch copies. known_findings.json lists defects found (all repaired by fix: commits so far).",
 "not_applicable": [],
}
for p in sorted(props.CLAIMED):
    c = props.CLAIMED[p]
    m["checks"].append({
     "property_id": p, "quick_cmd": "./check %s quick" % p, "thorough_cmd": "./check %s thorough" % p,
     "evidence_file": "evidence/%s.json" % p, "replay_cmd_template": "cat {path}", "engine": "gocv",
     "level_claimed": {"category": "proof", "text": c["text"], "design_ref": c["ref"]},
     "level_note": c["note"], "technique": c["technique"]})
for p in props.ALL:
    if p in props.CLAIMED:
        continue
    m["not_applicable"].append({"property_id": p, "reason": props.NOT_APPLICABLE.get(p, props.PENDING_REASON)})
json.dump(m, open('/verif/MANIFEST.json', 'w'), indent=1)
print("MANIFEST.json: %d checks, %d not applicable, hooks %s" % (len(m["checks"]), len(m["not_applicable"]), hooks))
