package main

import (
	"fmt"
	"go/ast"
	"go/parser"
	"go/token"
	"go/types"
	"strconv"
)

// evalTypeInScope resolves a type expression using a scope that knows every
// program package by name plus the members of pkg.
func evalTypeInScope(fset *token.FileSet, scope *types.Scope, pkg *types.Package, text string) (types.Type, error) {
	ex, err := parser.ParseExpr(text)
	if err != nil {
		return nil, err
	}
	return typeFromAST(scope, ex)
}

func typeFromAST(scope *types.Scope, ex ast.Expr) (types.Type, error) {
	switch x := ex.(type) {
	case *ast.Ident:
		_, obj := scope.LookupParent(x.Name, token.NoPos)
		if tn, ok := obj.(*types.TypeName); ok {
			return tn.Type(), nil
		}
		return nil, fmt.Errorf("%s is not a type", x.Name)
	case *ast.SelectorExpr:
		id, ok := x.X.(*ast.Ident)
		if !ok {
			return nil, fmt.Errorf("bad qualified type")
		}
		_, obj := scope.LookupParent(id.Name, token.NoPos)
		pn, ok := obj.(*types.PkgName)
		if !ok {
			return nil, fmt.Errorf("%s is not a package", id.Name)
		}
		o := pn.Imported().Scope().Lookup(x.Sel.Name)
		if tn, ok := o.(*types.TypeName); ok {
			return tn.Type(), nil
		}
		return nil, fmt.Errorf("%s.%s is not a type", id.Name, x.Sel.Name)
	case *ast.StarExpr:
		t, err := typeFromAST(scope, x.X)
		if err != nil {
			return nil, err
		}
		return types.NewPointer(t), nil
	case *ast.ParenExpr:
		return typeFromAST(scope, x.X)
	case *ast.ArrayType:
		t, err := typeFromAST(scope, x.Elt)
		if err != nil {
			return nil, err
		}
		if x.Len == nil {
			return types.NewSlice(t), nil
		}
		bl, ok := x.Len.(*ast.BasicLit)
		if !ok {
			return nil, fmt.Errorf("array length must be a literal")
		}
		n, err := strconv.ParseInt(bl.Value, 0, 64)
		if err != nil {
			return nil, err
		}
		return types.NewArray(t, n), nil
	case *ast.MapType:
		k, err := typeFromAST(scope, x.Key)
		if err != nil {
			return nil, err
		}
		v, err := typeFromAST(scope, x.Value)
		if err != nil {
			return nil, err
		}
		return types.NewMap(k, v), nil
	case *ast.StructType:
		if x.Fields == nil || len(x.Fields.List) == 0 {
			return types.NewStruct(nil, nil), nil
		}
	case *ast.InterfaceType:
		return types.NewInterfaceType(nil, nil), nil
	}
	return nil, fmt.Errorf("unsupported type expression %T", ex)
}
