package main

// Contract files: comment-only Go files (<pkg>/contracts_verif.go, build tag
// verif). Every line starting with "//@" belongs to the contract language.
//
// Blocks:
//   //@ func <qualified name> [props Cxx,Cyy]
//   //@ iface <Iface>.<Method> | //@ extern <pkgpath>.<Func> | <pkgpath>.(<Recv>).<Method>
//   //@ spec func Name(a T, b U) R [= expr]
//   //@ ghost name Type
//   //@ pred Name(params) = expr
// Clauses inside a block: requires, ensures, assigns, nopanic, mode bv64,
// inline, pure, assumed, fresh, loop <key> [unroll N] followed by invariant
// clauses, callsite, trace, ...

import (
	"fmt"
	"os"
	"path/filepath"
	"regexp"
	"strconv"
	"strings"
)

type Clause struct {
	Kind string // requires, ensures, invariant, assigns, ...
	Text string
	Expr *SExpr
	Name string // optional label: "ensures [label] expr"
	Target string // callback clauses: the function-typed parameter
	Var    string // cbupdate: ghost variable assigned
	File string
	Line int
}

type LoopSpec struct {
	Key        string // source text key: `range db.puts` / `for i < n`
	Ordinal    int    // among loops with equal key in the function (1-based)
	Unroll     int
	Exhaustive bool // the loop is left only from its head (range exhausted / condition false), never by break or goto
	Invariants []*Clause
	Havoc      []string // extra modifies hints
}

func (ls *LoopSpec) usesLoopEntry() bool {
	for _, cl := range ls.Invariants {
		if strings.Contains(cl.Text, "loopentry(") || strings.Contains(cl.Text, "frameRows(") {
			return true
		}
	}
	return false
}

type Block struct {
	Kind    string // func, iface, extern, spec, ghost, pred
	Name    string
	Props   []string
	Clauses []*Clause
	Loops   []*LoopSpec
	Flags   map[string]string
	// spec func / pred
	Params []SParam
	Result string // type text
	Body   *SExpr
	File   string
	Line   int
}

type SParam struct{ Name, Type string }

func (b *Block) Has(flag string) bool { _, ok := b.Flags[flag]; return ok }

func (b *Block) ClausesOf(kind string) []*Clause {
	var out []*Clause
	for _, c := range b.Clauses {
		if c.Kind == kind {
			out = append(out, c)
		}
	}
	return out
}

type SpecFile struct {
	Pkg    string // directory relative to repo root
	Blocks []*Block
}

var blockKW = map[string]bool{"func": true, "iface": true, "extern": true, "spec": true, "ghost": true, "pred": true, "lemma": true, "data": true, "axiom": true}
var clauseKW = map[string]bool{"requires": true, "ensures": true, "invariant": true, "assigns": true, "nopanic": true, "mode": true, "inline": true,
	"pure": true, "assumed": true, "loop": true, "props": true, "trace": true, "fresh": true, "assume": true, "unroll": true, "class": true,
	"noinline": true, "returns": true, "event": true, "havoc": true, "panics": true, "bounded": true, "check": true, "opaque": true, "maxpaths": true, "frame": true, "modifies": true, "reads": true, "trusted": true, "ghostset": true, "ghostvar": true, "cbrequires": true, "cbupdate": true, "aftercall": true, "assumeafter": true, "borrowed": true, "precall": true, "trustcalls": true, "callbacks": true, "params": true, "defer": true, "expectfail": true}

func parseSpecFile(path string) ([]*Block, error) {
	data, err := os.ReadFile(path)
	if err != nil {
		return nil, err
	}
	var blocks []*Block
	var cur *Block
	var curLoop *LoopSpec
	// logical lines: a physical //@ line that does not start with a block or
	// clause keyword continues the previous one
	type lline struct {
		text string
		ln   int
	}
	var ll []lline
	for ln, raw := range strings.Split(string(data), "\n") {
		line := strings.TrimSpace(raw)
		if !strings.HasPrefix(line, "//@") {
			continue
		}
		body := strings.TrimSpace(strings.TrimPrefix(line, "//@"))
		if i := strings.Index(body, " //"); i >= 0 { // trailing comment
			body = strings.TrimSpace(body[:i])
		}
		if body == "" {
			continue
		}
		kw, _ := splitWord(body)
		if blockKW[kw] || clauseKW[kw] || len(ll) == 0 {
			ll = append(ll, lline{body, ln})
		} else {
			ll[len(ll)-1].text += " " + body
		}
	}
	for _, l := range ll {
		ln, body := l.ln, l.text
		kw, rest := splitWord(body)
		switch {
		case blockKW[kw] && !(kw == "func" && cur != nil && false):
			cur = &Block{Kind: kw, Flags: map[string]string{}, File: path, Line: ln + 1}
			curLoop = nil
			if err := parseBlockHeader(cur, rest); err != nil {
				return nil, fmt.Errorf("%s:%d: %v", path, ln+1, err)
			}
			blocks = append(blocks, cur)
		case cur == nil:
			return nil, fmt.Errorf("%s:%d: clause outside block: %s", path, ln+1, body)
		case kw == "loop":
			curLoop = &LoopSpec{Ordinal: 1}
			// loop "key" [#n] [unroll k] [exhaustive]
			m := regexp.MustCompile(`^"([^"]*)"\s*(#(\d+))?\s*(unroll\s+(\d+))?\s*(exhaustive)?$`).FindStringSubmatch(rest)
			if m == nil {
				return nil, fmt.Errorf("%s:%d: bad loop clause: %s", path, ln+1, rest)
			}
			curLoop.Key = m[1]
			if m[3] != "" {
				curLoop.Ordinal, _ = strconv.Atoi(m[3])
			}
			if m[5] != "" {
				curLoop.Unroll, _ = strconv.Atoi(m[5])
			}
			curLoop.Exhaustive = m[6] != ""
			cur.Loops = append(cur.Loops, curLoop)
		case clauseKW[kw]:
			cl := &Clause{Kind: kw, Text: rest, File: path, Line: ln + 1}
			// optional label
			if strings.HasPrefix(rest, "[") {
				if j := strings.Index(rest, "]"); j > 0 {
					cl.Name = rest[1:j]
					cl.Text = strings.TrimSpace(rest[j+1:])
				}
			}
			switch kw {
			case "invariant":
				if curLoop == nil {
					return nil, fmt.Errorf("%s:%d: invariant outside loop", path, ln+1)
				}
				curLoop.Invariants = append(curLoop.Invariants, cl)
			case "havoc":
				if curLoop != nil {
					curLoop.Havoc = append(curLoop.Havoc, strings.Fields(strings.ReplaceAll(rest, ",", " "))...)
				} else {
					cur.Clauses = append(cur.Clauses, cl)
				}
			case "props":
				cur.Props = append(cur.Props, strings.Fields(strings.ReplaceAll(rest, ",", " "))...)
			case "requires", "ensures", "assume", "check", "ghostvar", "borrowed", "precall":
				cur.Clauses = append(cur.Clauses, cl)
			case "cbrequires", "cbupdate", "aftercall", "assumeafter":
				// "<param> [label] : expr"  /  "<param> : var = expr"
				i := strings.Index(rest, ":")
				if i < 0 {
					return nil, fmt.Errorf("%s:%d: %s needs '<param> : ...'", path, ln+1, kw)
				}
				head := strings.TrimSpace(rest[:i])
				cl.Text = strings.TrimSpace(rest[i+1:])
				cl.Name = ""
				hf := strings.Fields(head)
				cl.Target = hf[0]
				if len(hf) > 1 {
					cl.Name = strings.Trim(hf[1], "[]")
				}
				if kw == "cbupdate" || kw == "aftercall" {
					j := strings.Index(cl.Text, "=")
					if j < 0 {
						return nil, fmt.Errorf("%s:%d: cbupdate needs 'var = expr'", path, ln+1)
					}
					cl.Var = strings.TrimSpace(cl.Text[:j])
					cl.Text = strings.TrimSpace(cl.Text[j+1:])
				}
				cur.Clauses = append(cur.Clauses, cl)
			default:
				cur.Flags[kw] = rest
				cur.Clauses = append(cur.Clauses, cl)
			}
		default:
			return nil, fmt.Errorf("%s:%d: unknown clause %q", path, ln+1, kw)
		}
	}
	// parse expressions
	for _, b := range blocks {
		all := append([]*Clause{}, b.Clauses...)
		for _, l := range b.Loops {
			all = append(all, l.Invariants...)
		}
		for _, cl := range all {
			switch cl.Kind {
			case "requires", "ensures", "invariant", "assume", "check", "cbrequires", "cbupdate", "aftercall", "assumeafter", "borrowed", "precall":
				e, err := parseSExpr(cl.Text)
				if err != nil {
					return nil, fmt.Errorf("%s:%d: %v in %q", cl.File, cl.Line, err, cl.Text)
				}
				cl.Expr = e
			}
		}
	}
	return blocks, nil
}

func splitWord(s string) (string, string) {
	s = strings.TrimSpace(s)
	i := strings.IndexAny(s, " \t")
	if i < 0 {
		return s, ""
	}
	return s[:i], strings.TrimSpace(s[i+1:])
}

func parseBlockHeader(b *Block, rest string) error {
	switch b.Kind {
	case "func", "iface", "extern", "lemma":
		// name [props ...] [flags...]
		fields := strings.Fields(rest)
		if len(fields) == 0 {
			return fmt.Errorf("missing name")
		}
		b.Name = fields[0]
		for i := 1; i < len(fields); i++ {
			switch fields[i] {
			case "props":
				if i+1 < len(fields) {
					b.Props = append(b.Props, strings.Split(fields[i+1], ",")...)
					i++
				}
			default:
				b.Flags[fields[i]] = ""
			}
		}
	case "spec":
		// spec func Name(a T, b U) R [= expr]
		rest = strings.TrimSpace(strings.TrimPrefix(rest, "func"))
		return parseSig(b, rest)
	case "pred":
		return parseSig(b, rest)
	case "ghost":
		name, typ := splitWord(rest)
		b.Name = name
		b.Result = typ
	case "data":
		b.Name = rest
	case "axiom":
		b.Name = "axiom"
		e, err := parseSExpr(rest)
		if err != nil {
			return err
		}
		b.Body = e
	}
	return nil
}

func parseSig(b *Block, s string) error {
	i := strings.Index(s, "(")
	if i < 0 {
		return fmt.Errorf("bad signature %q", s)
	}
	b.Name = strings.TrimSpace(s[:i])
	// matching paren
	depth, j := 0, i
	for ; j < len(s); j++ {
		if s[j] == '(' {
			depth++
		} else if s[j] == ')' {
			depth--
			if depth == 0 {
				break
			}
		}
	}
	if j >= len(s) {
		return fmt.Errorf("unbalanced signature %q", s)
	}
	params := s[i+1 : j]
	for _, p := range splitTop(params, ',') {
		p = strings.TrimSpace(p)
		if p == "" {
			continue
		}
		n, t := splitWord(p)
		b.Params = append(b.Params, SParam{n, t})
	}
	// go-style grouped params "a, b T"
	for k := len(b.Params) - 1; k >= 0; k-- {
		if b.Params[k].Type == "" && k+1 < len(b.Params) {
			b.Params[k].Type = b.Params[k+1].Type
		}
	}
	tail := strings.TrimSpace(s[j+1:])
	if k := strings.Index(tail, "="); k >= 0 && !strings.HasPrefix(tail[k:], "==") {
		b.Result = strings.TrimSpace(tail[:k])
		e, err := parseSExpr(strings.TrimSpace(tail[k+1:]))
		if err != nil {
			return err
		}
		b.Body = e
	} else {
		b.Result = tail
	}
	if b.Result == "" {
		b.Result = "bool"
	}
	return nil
}

func splitTop(s string, sep byte) []string {
	var out []string
	depth, start := 0, 0
	for i := 0; i < len(s); i++ {
		switch s[i] {
		case '(', '[', '{':
			depth++
		case ')', ']', '}':
			depth--
		case sep:
			if depth == 0 {
				out = append(out, s[start:i])
				start = i + 1
			}
		}
	}
	out = append(out, s[start:])
	return out
}

func findSpecFiles(repo string, pkgDirs []string) []string {
	var out []string
	for _, d := range pkgDirs {
		m, _ := filepath.Glob(filepath.Join(repo, d, "contracts*_verif.go"))
		out = append(out, m...)
	}
	return out
}

// ---------------------------------------------------------------------------
// Spec expressions

type SExpr struct {
	Op   string // ident, int, str, bool, nil, call, sel, index, slice, un, bin, forall, exists, old, typeassert, zero, ite, in, upd
	Name string
	Args []*SExpr
	Val  string
	Vars []SParam // quantifier variables
	Pats []*SExpr // quantifier triggers
	Pos  int
}

func (e *SExpr) String() string {
	switch e.Op {
	case "ident", "int", "str":
		return e.Name + e.Val
	}
	var as []string
	for _, a := range e.Args {
		as = append(as, a.String())
	}
	return fmt.Sprintf("%s:%s(%s)", e.Op, e.Name, strings.Join(as, ","))
}

type tok struct {
	kind string // ident, int, str, op, eof
	text string
	pos  int
}

func lexSpec(s string) ([]tok, error) {
	var out []tok
	i := 0
	ops := []string{"<==>", "==>", "::", ":=", "==", "!=", "<=", ">=", "&&", "||", "<<", ">>", "&^", "..."}
	for i < len(s) {
		c := s[i]
		switch {
		case c == ' ' || c == '\t':
			i++
		case c >= '0' && c <= '9':
			j := i
			for j < len(s) && (isAlnum(s[j]) || s[j] == '_') {
				j++
			}
			out = append(out, tok{"int", s[i:j], i})
			i = j
		case isAlpha(c):
			j := i
			for j < len(s) && isAlnum(s[j]) {
				j++
			}
			out = append(out, tok{"ident", s[i:j], i})
			i = j
		case c == '"':
			j := i + 1
			for j < len(s) && s[j] != '"' {
				if s[j] == '\\' {
					j++
				}
				j++
			}
			if j >= len(s) {
				return nil, fmt.Errorf("unterminated string")
			}
			out = append(out, tok{"str", s[i : j+1], i})
			i = j + 1
		default:
			matched := false
			for _, op := range ops {
				if strings.HasPrefix(s[i:], op) {
					out = append(out, tok{"op", op, i})
					i += len(op)
					matched = true
					break
				}
			}
			if !matched {
				out = append(out, tok{"op", string(c), i})
				i++
			}
		}
	}
	out = append(out, tok{"eof", "", len(s)})
	return out, nil
}

func isAlpha(c byte) bool { return c == '_' || c >= 'a' && c <= 'z' || c >= 'A' && c <= 'Z' }
func isAlnum(c byte) bool { return isAlpha(c) || c >= '0' && c <= '9' }

type sparser struct {
	toks []tok
	p    int
	src  string
}

func parseSExpr(s string) (*SExpr, error) {
	toks, err := lexSpec(s)
	if err != nil {
		return nil, err
	}
	ps := &sparser{toks: toks, src: s}
	var e *SExpr
	func() {
		defer func() {
			if r := recover(); r != nil {
				if pe, ok := r.(parseErr); ok {
					err = fmt.Errorf("%s", string(pe))
					return
				}
				panic(r)
			}
		}()
		e = ps.expr()
		if ps.peek().kind != "eof" {
			ps.fail("unexpected %q", ps.peek().text)
		}
	}()
	return e, err
}

type parseErr string

func (p *sparser) fail(f string, a ...any) {
	panic(parseErr(fmt.Sprintf(f, a...) + fmt.Sprintf(" at col %d", p.peek().pos)))
}
func (p *sparser) peek() tok { return p.toks[p.p] }
func (p *sparser) next() tok { t := p.toks[p.p]; p.p++; return t }
func (p *sparser) isOp(s string) bool {
	t := p.peek()
	return t.kind == "op" && t.text == s
}
func (p *sparser) accept(s string) bool {
	if p.isOp(s) {
		p.p++
		return true
	}
	return false
}
func (p *sparser) expect(s string) {
	if !p.accept(s) {
		p.fail("expected %q, got %q", s, p.peek().text)
	}
}

func (p *sparser) expr() *SExpr {
	t := p.peek()
	if t.kind == "ident" && (t.text == "forall" || t.text == "exists") {
		p.next()
		q := &SExpr{Op: t.text}
		for {
			n := p.next()
			if n.kind != "ident" {
				p.fail("quantifier variable expected")
			}
			typ := p.typeText()
			q.Vars = append(q.Vars, SParam{n.text, typ})
			if !p.accept(",") {
				break
			}
		}
		for k := len(q.Vars) - 1; k >= 0; k-- {
			if q.Vars[k].Type == "" && k+1 < len(q.Vars) {
				q.Vars[k].Type = q.Vars[k+1].Type
			}
		}
		p.expect("::")
		// optional triggers: { t1, t2 }
		if p.accept("{") {
			for !p.isOp("}") {
				q.Pats = append(q.Pats, p.expr())
				if !p.accept(",") {
					break
				}
			}
			p.expect("}")
		}
		q.Args = []*SExpr{p.expr()}
		return q
	}
	return p.impl()
}

// typeText consumes a Go type up to "::" or "," at depth 0.
func (p *sparser) typeText() string {
	var sb strings.Builder
	depth := 0
	for {
		t := p.peek()
		if t.kind == "eof" {
			break
		}
		if t.kind == "op" {
			if depth == 0 && (t.text == "::" || t.text == ",") {
				break
			}
			if t.text == "[" || t.text == "(" {
				depth++
			}
			if t.text == "]" || t.text == ")" {
				depth--
			}
		}
		sb.WriteString(t.text)
		p.next()
	}
	return sb.String()
}

func (p *sparser) impl() *SExpr {
	l := p.iff()
	if p.accept("==>") {
		r := p.implRHS()
		return &SExpr{Op: "bin", Name: "==>", Args: []*SExpr{l, r}}
	}
	return l
}

func (p *sparser) implRHS() *SExpr {
	t := p.peek()
	if t.kind == "ident" && (t.text == "forall" || t.text == "exists") {
		return p.expr()
	}
	return p.impl()
}

func (p *sparser) iff() *SExpr {
	l := p.or()
	for p.accept("<==>") {
		r := p.or()
		l = &SExpr{Op: "bin", Name: "<==>", Args: []*SExpr{l, r}}
	}
	return l
}

func (p *sparser) or() *SExpr {
	l := p.and()
	for p.accept("||") {
		l = &SExpr{Op: "bin", Name: "||", Args: []*SExpr{l, p.and()}}
	}
	return l
}

func (p *sparser) and() *SExpr {
	l := p.cmp()
	for p.accept("&&") {
		l = &SExpr{Op: "bin", Name: "&&", Args: []*SExpr{l, p.cmp()}}
	}
	return l
}

func (p *sparser) cmp() *SExpr {
	l := p.add()
	for _, op := range []string{"==", "!=", "<=", ">=", "<", ">"} {
		if p.accept(op) {
			return &SExpr{Op: "bin", Name: op, Args: []*SExpr{l, p.add()}}
		}
	}
	if t := p.peek(); t.kind == "ident" && t.text == "in" {
		p.next()
		return &SExpr{Op: "in", Args: []*SExpr{l, p.add()}}
	}
	return l
}

func (p *sparser) add() *SExpr {
	l := p.mul()
	for {
		matched := false
		for _, op := range []string{"+", "-", "|", "^"} {
			if p.isOp(op) {
				p.next()
				l = &SExpr{Op: "bin", Name: op, Args: []*SExpr{l, p.mul()}}
				matched = true
				break
			}
		}
		if !matched {
			return l
		}
	}
}

func (p *sparser) mul() *SExpr {
	l := p.unary()
	for {
		matched := false
		for _, op := range []string{"*", "/", "%", "<<", ">>", "&^", "&"} {
			if p.isOp(op) {
				p.next()
				l = &SExpr{Op: "bin", Name: op, Args: []*SExpr{l, p.unary()}}
				matched = true
				break
			}
		}
		if !matched {
			return l
		}
	}
}

func (p *sparser) unary() *SExpr {
	for _, op := range []string{"!", "-", "*", "&"} {
		if p.isOp(op) {
			p.next()
			return &SExpr{Op: "un", Name: op, Args: []*SExpr{p.unary()}}
		}
	}
	return p.postfix()
}

func (p *sparser) postfix() *SExpr {
	e := p.primary()
	for {
		switch {
		case p.accept("."):
			if p.accept("(") {
				typ := p.typeUntilParen()
				p.expect(")")
				e = &SExpr{Op: "typeassert", Val: typ, Args: []*SExpr{e}}
				continue
			}
			n := p.next()
			if n.kind != "ident" {
				p.fail("field name expected")
			}
			e = &SExpr{Op: "sel", Name: n.text, Args: []*SExpr{e}}
		case p.accept("["):
			if p.accept(":") {
				var hi *SExpr
				if !p.isOp("]") {
					hi = p.expr()
				}
				p.expect("]")
				e = &SExpr{Op: "slice", Args: []*SExpr{e, nil, hi}}
				continue
			}
			idx := p.expr()
			if p.accept(":=") {
				v := p.expr()
				p.expect("]")
				e = &SExpr{Op: "upd", Args: []*SExpr{e, idx, v}}
				continue
			}
			if p.accept(":") {
				var hi *SExpr
				if !p.isOp("]") {
					hi = p.expr()
				}
				p.expect("]")
				e = &SExpr{Op: "slice", Args: []*SExpr{e, idx, hi}}
				continue
			}
			p.expect("]")
			e = &SExpr{Op: "index", Args: []*SExpr{e, idx}}
		case p.isOp("(") && (e.Op == "ident" || e.Op == "sel"):
			p.next()
			var args []*SExpr
			for !p.isOp(")") {
				args = append(args, p.expr())
				if !p.accept(",") {
					break
				}
			}
			p.expect(")")
			e = &SExpr{Op: "call", Args: append([]*SExpr{e}, args...)}
		case p.isOp("{") && (e.Op == "ident" || e.Op == "sel"):
			// zero composite literal T{}
			p.next()
			p.expect("}")
			e = &SExpr{Op: "zero", Val: exprTypeText(e)}
		default:
			return e
		}
	}
}

func exprTypeText(e *SExpr) string {
	switch e.Op {
	case "ident":
		return e.Name
	case "sel":
		return exprTypeText(e.Args[0]) + "." + e.Name
	}
	return "?"
}

func (p *sparser) typeUntilParen() string {
	var sb strings.Builder
	depth := 0
	for {
		t := p.peek()
		if t.kind == "eof" {
			break
		}
		if t.kind == "op" && t.text == "(" {
			depth++
		}
		if t.kind == "op" && t.text == ")" {
			if depth == 0 {
				break
			}
			depth--
		}
		sb.WriteString(t.text)
		p.next()
	}
	return sb.String()
}

func (p *sparser) primary() *SExpr {
	t := p.next()
	switch t.kind {
	case "int":
		return &SExpr{Op: "int", Val: t.text}
	case "str":
		s, err := strconv.Unquote(t.text)
		if err != nil {
			p.fail("bad string %s", t.text)
		}
		return &SExpr{Op: "str", Val: s}
	case "ident":
		switch t.text {
		case "true", "false":
			return &SExpr{Op: "bool", Val: t.text}
		case "nil":
			return &SExpr{Op: "nil"}
		case "old":
			p.expect("(")
			e := p.expr()
			p.expect(")")
			return &SExpr{Op: "old", Args: []*SExpr{e}}
		case "loopentry":
			p.expect("(")
			e := p.expr()
			p.expect(")")
			return &SExpr{Op: "loopentry", Args: []*SExpr{e}}
		}
		return &SExpr{Op: "ident", Name: t.text, Pos: t.pos}
	case "op":
		if t.text == "(" {
			e := p.expr()
			p.expect(")")
			return &SExpr{Op: "paren", Args: []*SExpr{e}}
		}
		if t.text == "[" {
			// array/slice/map type literal used as zero value: [N]T{} / []T{}
			p.p--
			typ := p.typeUntilBrace()
			p.expect("{")
			p.expect("}")
			return &SExpr{Op: "zero", Val: typ}
		}
	}
	p.fail("unexpected token %q", t.text)
	return nil
}

func (p *sparser) typeUntilBrace() string {
	var sb strings.Builder
	for {
		t := p.peek()
		if t.kind == "eof" || (t.kind == "op" && t.text == "{") {
			break
		}
		sb.WriteString(t.text)
		p.next()
	}
	return sb.String()
}
