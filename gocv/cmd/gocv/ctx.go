package main

// Ctx: symbol table for one function verification; Go type -> SMT sort mapping.

import (
	"fmt"
	"go/types"
	"math/big"
	"regexp"
	"strings"
)

type Ctx struct {
	BV      bool // bit-vector mode for Go integers
	nextID  int
	syms    map[string]*Sym
	sorts   map[string]*Sort // by Go type key
	fresh   map[string]int
	SStr    *Sort
	SIface  *Sort
	SSlice  *Sort
	W       *Sort // word sort (indices, lengths)
	strLits map[string]*Term
	axioms  []*Term // global background axioms (always included when their symbols are used)
	nameMin int     // terms printing longer than this get named
	byteArr map[int]*Sort
	funcs   map[string]*Sym
	bvSorts    map[int]*Sort
	arraySorts map[string]*Sort
	opaqueMin  int64 // [N]byte with N >= opaqueMin is an opaque value sort
}

func NewCtx(bv bool) *Ctx {
	c := &Ctx{BV: bv, syms: map[string]*Sym{}, sorts: map[string]*Sort{}, fresh: map[string]int{}, strLits: map[string]*Term{}, nameMin: 160, byteArr: map[int]*Sort{}, funcs: map[string]*Sym{}, bvSorts: map[int]*Sort{}, arraySorts: map[string]*Sort{}, opaqueMin: opaqueByteArrayMin}
	if bv {
		c.opaqueMin = 65 // bit-precise functions see hashes as real byte arrays
	}
	if bv {
		c.W = c.bvSort(64)
	} else {
		c.W = SInt
	}
	c.SStr = c.declareSort("Str")
	c.SIface = c.declareSort("Iface")
	// slice header
	c.SSlice = &Sort{Name: "Slice"}
	c.SSlice.DT = &Datatype{Ctor: "mk-slice", Fields: []DTField{{"sl-base", SInt}, {"sl-off", c.W}, {"sl-len", c.W}, {"sl-cap", c.W}}}
	c.SSlice.sym = c.addSym("Slice", fmt.Sprintf("(declare-datatypes ((Slice 0)) (((mk-slice (sl-base Int) (sl-off %s) (sl-len %s) (sl-cap %s)))))", c.W.Name, c.W.Name, c.W.Name), c.W.sym)
	return c
}

func (c *Ctx) bvSort(w int) *Sort {
	if s, ok := c.bvSorts[w]; ok {
		return s
	}
	s := &Sort{Name: fmt.Sprintf("(_ BitVec %d)", w), BVWidth: w}
	c.bvSorts[w] = s
	return s
}

func (c *Ctx) addSym(name, decl string, deps ...*Sym) *Sym {
	if s, ok := c.syms[name]; ok {
		return s
	}
	var ds []*Sym
	for _, d := range deps {
		if d != nil {
			ds = append(ds, d)
		}
	}
	c.nextID++
	s := &Sym{Name: name, Decl: decl, Deps: ds, id: c.nextID}
	c.syms[name] = s
	return s
}

func (c *Ctx) declareSort(name string) *Sort {
	s := &Sort{Name: name}
	s.sym = c.addSym(name, fmt.Sprintf("(declare-sort %s 0)", name))
	return s
}

func (c *Ctx) ArraySort(idx, elem *Sort) *Sort {
	name := fmt.Sprintf("(Array %s %s)", idx.Name, elem.Name)
	if s, ok := c.arraySorts[name]; ok && s.Idx == idx && s.Elem == elem {
		return s
	}
	s := &Sort{Name: name, Idx: idx, Elem: elem}
	c.arraySorts[name] = s
	return s
}

func sortDeps(ss ...*Sort) []*Sym {
	var out []*Sym
	var rec func(s *Sort)
	rec = func(s *Sort) {
		if s == nil {
			return
		}
		if s.sym != nil {
			out = append(out, s.sym)
		}
		rec(s.Idx)
		rec(s.Elem)
	}
	for _, s := range ss {
		rec(s)
	}
	return out
}

func sanitize(s string) string {
	var sb strings.Builder
	for _, r := range s {
		switch {
		case r >= 'a' && r <= 'z', r >= 'A' && r <= 'Z', r >= '0' && r <= '9', r == '_', r == '.':
			sb.WriteRune(r)
		case r == '*':
			sb.WriteString("P")
		case r == '[' || r == ']':
			sb.WriteString("_")
		case r == '/':
			sb.WriteString(".")
		default:
			sb.WriteString("_")
		}
	}
	return sb.String()
}

// Fresh returns a fresh constant of the given sort.
func (c *Ctx) Fresh(prefix string, s *Sort) *Term {
	prefix = sanitize(prefix)
	c.fresh[prefix]++
	name := fmt.Sprintf("%s!%d", prefix, c.fresh[prefix])
	return c.Const(name, s)
}

func (c *Ctx) Const(name string, s *Sort) *Term {
	sym := c.addSym(name, fmt.Sprintf("(declare-fun %s () %s)", name, s.Name), sortDeps(s)...)
	return &Term{Op: name, Sort: s, Sym: sym}
}

// Func declares (once) and applies an uninterpreted function.
func (c *Ctx) Func(name string, ret *Sort, args ...*Term) *Term {
	name = sanitize(name)
	var as []string
	var ss []*Sort
	for _, a := range args {
		as = append(as, a.Sort.Name)
		ss = append(ss, a.Sort)
	}
	sig := name + "|" + strings.Join(as, ",") + "|" + ret.Name
	sym, ok := c.funcs[sig]
	if !ok {
		smtName := name
		if _, taken := c.syms[smtName]; taken {
			// same Go-level function applied at another arity (e.g. byte slices of literal length)
			c.fresh["sig:"+name]++
			smtName = fmt.Sprintf("%s_sig%d", name, c.fresh["sig:"+name])
		}
		ss = append(ss, ret)
		sym = c.addSym(smtName, fmt.Sprintf("(declare-fun %s (%s) %s)", smtName, strings.Join(as, " "), ret.Name), sortDeps(ss...)...)
		c.funcs[sig] = sym
	}
	if len(args) == 0 {
		return &Term{Op: sym.Name, Sort: ret, Sym: sym}
	}
	return &Term{Op: sym.Name, Args: args, Sort: ret, Sym: sym}
}

// Name gives a large term a define-fun name so printed queries stay small.
func (c *Ctx) Name(prefix string, t *Term) *Term {
	if t.IsLit || len(t.Args) == 0 || t.Q != nil || len(t.String()) < c.nameMin {
		return t
	}
	prefix = sanitize(prefix)
	c.fresh[prefix]++
	name := fmt.Sprintf("%s$%d", prefix, c.fresh[prefix])
	c.nextID++
	sym := &Sym{Name: name, Decl: fmt.Sprintf("(define-fun %s () %s %s)", name, t.Sort.Name, t.String()), Def: t, id: c.nextID}
	c.syms[name] = sym
	return &Term{Op: name, Sort: t.Sort, Sym: sym}
}

// Bound variable for quantifiers.
func BoundVar(name string, s *Sort) *Term { return &Term{Op: name, Sort: s} }

func Forall(vars []*Term, body *Term, pats ...*Term) *Term {
	if body.IsLit {
		return body
	}
	return &Term{Sort: SBool, Q: &Quant{Forall: true, Vars: vars, Body: body, Pats: pats}}
}

func Exists(vars []*Term, body *Term) *Term {
	if body.IsLit {
		return body
	}
	return &Term{Sort: SBool, Q: &Quant{Forall: false, Vars: vars, Body: body}}
}

// ---------------------------------------------------------------------------
// Go types -> sorts

var (
	byteRe = regexp.MustCompile(`\bbyte\b`)
	runeRe = regexp.MustCompile(`\brune\b`)
)

// typeKey: canonical spelling of a type (byte and rune are spelled as the types they alias).
func typeKey(t types.Type) string {
	s := types.TypeString(t, nil)
	if strings.Contains(s, "byte") {
		s = byteRe.ReplaceAllString(s, "uint8")
	}
	if strings.Contains(s, "rune") {
		s = runeRe.ReplaceAllString(s, "int32")
	}
	return s
}

func isByteArray(t types.Type) (int64, bool) {
	a, ok := t.Underlying().(*types.Array)
	if !ok {
		return 0, false
	}
	b, ok := a.Elem().Underlying().(*types.Basic)
	if !ok || (b.Kind() != types.Uint8) {
		return 0, false
	}
	return a.Len(), true
}

const opaqueByteArrayMin = 20

func (c *Ctx) SortOf(t types.Type) *Sort {
	t = types.Unalias(t)
	if n, ok := isByteArray(t); ok && n >= c.opaqueMin {
		// hash-like value: opaque sort shared by all [N]byte types
		if s, ok := c.byteArr[int(n)]; ok {
			return s
		}
		s := c.declareSort(fmt.Sprintf("B%d", n))
		c.byteArr[int(n)] = s
		return s
	}
	key := typeKey(t)
	if s, ok := c.sorts[key]; ok {
		return s
	}
	var s *Sort
	switch u := t.Underlying().(type) {
	case *types.Basic:
		switch {
		case u.Info()&types.IsBoolean != 0:
			s = SBool
		case u.Info()&types.IsInteger != 0:
			if c.BV {
				s = c.bvSort(intWidth(u))
			} else {
				s = SInt
			}
		case u.Info()&types.IsString != 0:
			s = c.SStr
		case u.Kind() == types.UnsafePointer || u.Kind() == types.UntypedNil:
			s = SInt
		case u.Info()&types.IsFloat != 0:
			s = c.namedOpaque("Float")
		default:
			s = c.namedOpaque("Basic_" + sanitize(u.Name()))
		}
	case *types.Pointer, *types.Map, *types.Chan, *types.Signature:
		s = SInt
	case *types.Slice:
		s = c.SSlice
	case *types.Interface:
		s = c.SIface
	case *types.Array:
		s = c.ArraySort(c.W, c.SortOf(u.Elem()))
	case *types.Struct:
		s = c.structSort(t, u)
	case *types.Tuple:
		s = c.tupleSort(u)
	case *types.TypeParam:
		s = c.namedOpaque("TP_" + sanitize(key))
	default:
		s = c.namedOpaque("T_" + sanitize(key))
	}
	c.sorts[key] = s
	return s
}

func (c *Ctx) namedOpaque(name string) *Sort {
	if sym, ok := c.syms[name]; ok {
		for _, s := range c.sorts {
			if s.sym == sym {
				return s
			}
		}
	}
	return c.declareSort(name)
}

func intWidth(b *types.Basic) int {
	switch b.Kind() {
	case types.Int8, types.Uint8:
		return 8
	case types.Int16, types.Uint16:
		return 16
	case types.Int32, types.Uint32:
		return 32
	}
	return 64
}

func isUnsigned(b *types.Basic) bool { return b.Info()&types.IsUnsigned != 0 }

func (c *Ctx) structSort(t types.Type, st *types.Struct) *Sort {
	name := "S_" + sanitize(typeKey(t))
	if len(name) > 80 {
		c.fresh["anonstruct"]++
		name = fmt.Sprintf("%s_%d", name[:60], c.fresh["anonstruct"])
	}
	s := &Sort{Name: name}
	c.sorts[typeKey(t)] = s
	dt := &Datatype{Ctor: "mk-" + name}
	var deps []*Sym
	var fs []string
	for i := 0; i < st.NumFields(); i++ {
		f := st.Field(i)
		fsrt := c.SortOf(f.Type())
		acc := fmt.Sprintf("%s.%s", name, sanitize(f.Name()))
		if f.Name() == "_" {
			acc = fmt.Sprintf("%s._%d", name, i)
		}
		dt.Fields = append(dt.Fields, DTField{acc, fsrt})
		deps = append(deps, sortDeps(fsrt)...)
		fs = append(fs, fmt.Sprintf("(%s %s)", acc, fsrt.Name))
	}
	s.DT = dt
	body := "(" + dt.Ctor
	if len(fs) > 0 {
		body += " " + strings.Join(fs, " ")
	}
	body += ")"
	s.sym = c.addSym(name, fmt.Sprintf("(declare-datatypes ((%s 0)) ((%s)))", name, body), deps...)
	return s
}

func (c *Ctx) tupleSort(tu *types.Tuple) *Sort {
	var parts []string
	for i := 0; i < tu.Len(); i++ {
		parts = append(parts, c.SortOf(tu.At(i).Type()).Name)
	}
	name := "Tup_" + sanitize(strings.Join(parts, "_"))
	if sym, ok := c.syms[name]; ok {
		for _, s := range c.sorts {
			if s.sym == sym {
				return s
			}
		}
	}
	s := &Sort{Name: name}
	dt := &Datatype{Ctor: "mk-" + name}
	var deps []*Sym
	var fs []string
	for i := 0; i < tu.Len(); i++ {
		fsrt := c.SortOf(tu.At(i).Type())
		acc := fmt.Sprintf("%s.%d", name, i)
		dt.Fields = append(dt.Fields, DTField{acc, fsrt})
		deps = append(deps, sortDeps(fsrt)...)
		fs = append(fs, fmt.Sprintf("(%s %s)", acc, fsrt.Name))
	}
	s.DT = dt
	s.sym = c.addSym(name, fmt.Sprintf("(declare-datatypes ((%s 0)) (((%s %s))))", name, dt.Ctor, strings.Join(fs, " ")), deps...)
	return s
}

// Zero value of a Go type.
func (c *Ctx) Zero(t types.Type) *Term {
	s := c.SortOf(t)
	switch u := types.Unalias(t).Underlying().(type) {
	case *types.Basic:
		switch {
		case u.Info()&types.IsBoolean != 0:
			return False
		case u.Info()&types.IsInteger != 0:
			return c.IntOf(big.NewInt(0), t)
		case u.Info()&types.IsString != 0:
			return c.StrLit("")
		case u.Kind() == types.UnsafePointer || u.Kind() == types.UntypedNil:
			return IntLit(0)
		}
	case *types.Pointer, *types.Map, *types.Chan, *types.Signature:
		return IntLit(0)
	case *types.Slice:
		return c.NilSlice()
	case *types.Interface:
		return c.NilIface()
	case *types.Struct:
		args := make([]*Term, u.NumFields())
		for i := range args {
			args[i] = c.Zero(u.Field(i).Type())
		}
		return MkDT(s, args...)
	case *types.Array:
		if s.Elem != nil {
			return ConstArray(s, c.Zero(u.Elem()))
		}
	}
	// opaque: a distinguished zero constant per sort
	return c.Func("zero_"+s.Name, s)
}

func (c *Ctx) NilSlice() *Term {
	z := c.WLit(0)
	return MkDT(c.SSlice, IntLit(0), z, z, z)
}

func (c *Ctx) NilIface() *Term { return c.Func("nil_iface", c.SIface) }

func (c *Ctx) WLit(v int64) *Term {
	if c.BV {
		return BigLit(big.NewInt(v), c.W)
	}
	return IntLit(v)
}

// IntOf builds an integer literal of Go type t.
func (c *Ctx) IntOf(v *big.Int, t types.Type) *Term {
	return BigLit(v, c.SortOf(t))
}

func (c *Ctx) StrLit(s string) *Term {
	if t, ok := c.strLits[s]; ok {
		return t
	}
	n := len(c.strLits)
	t := c.Func(fmt.Sprintf("strlit_%d", n), c.SStr)
	// encode literal identity: str_id is injective on literals; len known
	c.strLits[s] = t
	t.Sym.Decl += fmt.Sprintf(" ; %q", trunc(s, 60))
	return t
}

func trunc(s string, n int) string {
	if len(s) > n {
		return s[:n] + "..."
	}
	return s
}

// StrLitAxioms returns distinctness and length facts for the literals used.
func (c *Ctx) StrLitAxioms(used map[*Sym]bool) []*Term {
	var lits []*Term
	var out []*Term
	for s, t := range c.strLits {
		if used == nil || used[t.Sym] {
			lits = append(lits, t)
			out = append(out, Eq(c.StrLen(t), c.WLit(int64(len(s)))))
		}
	}
	if len(lits) > 1 {
		out = append(out, mk("distinct", SBool, lits...))
	}
	return out
}

func (c *Ctx) StrLen(s *Term) *Term { return c.Func("str.len_", c.W, s) }
