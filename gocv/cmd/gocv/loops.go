package main

// Natural loops, loop specifications keyed by source text, invariant checks
// and the havoc of loop-modified state.

import (
	"fmt"
	"os"
	"go/ast"
	"go/token"
	"go/types"
	"sort"
	"strings"

	"golang.org/x/tools/go/ssa"
)

type loopInfo struct {
	header *ssa.BasicBlock
	body   map[*ssa.BasicBlock]bool // includes header
}

type loopAnalysis struct {
	byHeader map[*ssa.BasicBlock]*loopInfo
}

func (fv *FuncVer) loopsOf(fn *ssa.Function) *loopAnalysis {
	if la, ok := fv.loopInfos[fn]; ok {
		return la
	}
	la := &loopAnalysis{byHeader: map[*ssa.BasicBlock]*loopInfo{}}
	for _, b := range fn.Blocks {
		for _, s := range b.Succs {
			if s.Dominates(b) {
				// back edge b -> s
				li := la.byHeader[s]
				if li == nil {
					li = &loopInfo{header: s, body: map[*ssa.BasicBlock]bool{s: true}}
					la.byHeader[s] = li
				}
				// nodes reaching b without passing through s
				var stack []*ssa.BasicBlock
				if !li.body[b] {
					li.body[b] = true
					stack = append(stack, b)
				}
				for len(stack) > 0 {
					n := stack[len(stack)-1]
					stack = stack[:len(stack)-1]
					for _, p := range n.Preds {
						if !li.body[p] {
							li.body[p] = true
							stack = append(stack, p)
						}
					}
				}
			}
		}
	}
	fv.loopInfos[fn] = la
	return la
}

// ---------------------------------------------------------------------------
// loop keys from the AST

type astLoop struct {
	node     ast.Node
	key      string
	ordinal  int
	// generic key: "range *" / "for *" with the ordinal among the loops of that kind in the
	// function (source order). A contract keyed this way survives edits of the loop's operand.
	kindKey     string
	kindOrdinal int
	pos, end    token.Pos
}

func (e *Engine) astLoops(top *ssa.Function) []*astLoop {
	if ls, ok := e.loopCache[top]; ok {
		return ls
	}
	var out []*astLoop
	syn := top.Syntax()
	if syn != nil {
		counts := map[string]int{}
		ast.Inspect(syn, func(n ast.Node) bool {
			switch s := n.(type) {
			case *ast.ForStmt:
				key := "for"
				if s.Cond != nil {
					key = "for " + e.nodeText(s.Cond)
				}
				counts[key]++
				counts["for *"]++
				out = append(out, &astLoop{node: s, key: key, ordinal: counts[key], kindKey: "for *", kindOrdinal: counts["for *"], pos: s.Pos(), end: s.End()})
			case *ast.RangeStmt:
				key := "range " + e.nodeText(s.X)
				counts[key]++
				counts["range *"]++
				out = append(out, &astLoop{node: s, key: key, ordinal: counts[key], kindKey: "range *", kindOrdinal: counts["range *"], pos: s.Pos(), end: s.End()})
			}
			return true
		})
	}
	e.loopCache[top] = out
	return out
}

func topFunc(fn *ssa.Function) *ssa.Function {
	for fn.Parent() != nil {
		fn = fn.Parent()
	}
	return fn
}

// loopSpec finds the AST loop of an SSA loop and the matching spec (if any).
func (fv *FuncVer) loopSpec(fn *ssa.Function, li *loopInfo) (*LoopSpec, string) {
	top := topFunc(fn)
	loops := fv.eng.astLoops(top)
	// positions of instructions in the loop
	var minP, maxP token.Pos
	for b := range li.body {
		for _, ins := range b.Instrs {
			p := ins.Pos()
			if _, isDbg := ins.(*ssa.DebugRef); isDbg {
				p = ins.(*ssa.DebugRef).Expr.Pos()
			}
			if !p.IsValid() {
				continue
			}
			if !minP.IsValid() || p < minP {
				minP = p
			}
			if p > maxP {
				maxP = p
			}
		}
	}
	var best *astLoop
	for _, l := range loops {
		if l.pos <= minP && maxP < l.end {
			if best == nil || l.pos >= best.pos {
				best = l
			}
		}
	}
	if best == nil {
		return nil, fmt.Sprintf("loop@%s.%d", fn.Name(), li.header.Index)
	}
	key := best.key
	full := key
	if best.ordinal > 1 {
		full = fmt.Sprintf("%s#%d", key, best.ordinal)
	}
	blk := fv.eng.funcBlock(top)
	if blk == nil && top == topFunc(fv.fn) {
		blk = fv.block
	}
	if blk != nil {
		for _, ls := range blk.Loops {
			if ls.Key == key && ls.Ordinal == best.ordinal {
				return ls, full
			}
		}
		for _, ls := range blk.Loops {
			if ls.Key == best.kindKey && ls.Ordinal == best.kindOrdinal {
				// obligations of a generically keyed loop are named by that key
				return ls, fmt.Sprintf("%s#%d", best.kindKey, best.kindOrdinal)
			}
		}
	}
	return nil, full
}

// ---------------------------------------------------------------------------
// invariants

// loopVisited: the visited-key set of the map iteration driving the loop at the top frame's current block.
func (fv *FuncVer) loopVisited(st *State, f *Frame, env *SpecEnv) {
	if f.block == nil {
		return
	}
	for _, ins := range f.block.Instrs {
		if nx, ok := ins.(*ssa.Next); ok {
			if r, ok := nx.Iter.(*ssa.Range); ok {
				if it, ok := f.regs[r].(*MapIter); ok {
					saved := st.frames
					v := it.Visited
					if g, ok := st.globals[fmt.Sprintf("iter:%d:%s:%s", f.id, r.Parent().Name(), r.Name())]; ok {
						v = g
					}
					_ = saved
					env.visited = v
					env.visitedKey = it.MapType.Key()
					env.iterStart = it.Start
				}
			}
			return
		}
	}
}

func (fv *FuncVer) checkInvariants(st *State, spec *LoopSpec, key, phase string, f *Frame) {
	if spec == nil {
		return
	}
	env := fv.frameEnv(st, f)
	fv.loopVisited(st, f, env)
	for i, cl := range spec.Invariants {
		label := cl.Name
		if label == "" {
			label = fmt.Sprintf("#%d", i+1)
		}
		if !fv.clauseActive(label) {
			continue
		}
		g := fv.evalBool(env, cl.Expr)
		fv.oblige(st, "loop:"+key+"/"+phase+"["+label+"]", "", token.NoPos, g, "loop invariant ("+phase+"): "+cl.Text)
	}
}

func (fv *FuncVer) assumeInvariants(st *State, spec *LoopSpec, f *Frame) {
	if spec == nil {
		return
	}
	env := fv.frameEnv(st, f)
	fv.loopVisited(st, f, env)
	for _, cl := range spec.Invariants {
		if !fv.clauseActive(cl.Name) {
			continue
		}
		st.assume(fv.evalBool(env, cl.Expr))
	}
}

// assumeRangeBounds: the hidden index of a range-over-slice loop stays within
// [-1, len-1] at the loop header. This is a structural fact of the SSA lowering
// (the index starts at -1 and is only advanced by the header itself, which
// leaves the loop as soon as index+1 reaches len), not a user invariant.
func (fv *FuncVer) assumeRangeBounds(st *State, f *Frame, li *loopInfo) {
	for _, ins := range li.header.Instrs {
		cmp, ok := ins.(*ssa.BinOp)
		if !ok || cmp.Op != token.LSS {
			continue
		}
		add, ok := cmp.X.(*ssa.BinOp)
		if !ok || add.Op != token.ADD {
			continue
		}
		ld, ok := add.X.(*ssa.UnOp)
		if !ok || ld.Op != token.MUL {
			continue
		}
		a, ok := ld.X.(*ssa.Alloc)
		if !ok || a.Comment != "rangeindex" {
			continue
		}
		if k, ok := add.Y.(*ssa.Const); !ok || k.Value == nil || k.Value.ExactString() != "1" {
			continue
		}
		call, ok := cmp.Y.(*ssa.Call)
		if !ok {
			continue
		}
		if b, ok := call.Call.Value.(*ssa.Builtin); !ok || b.Name() != "len" {
			continue
		}
		// the only stores to the index are the initialisation and the header's own increment
		for _, ref := range *a.Referrers() {
			if s, ok := ref.(*ssa.Store); ok && s.Addr == a {
				if s.Block() == li.header && s.Val == add {
					continue
				}
				if !li.body[s.Block()] {
					continue
				}
				return
			}
		}
		lv, ok := f.regs[a].(*Loc)
		if !ok {
			return
		}
		cur, ok := fv.load(st, lv).(*Term)
		if !ok {
			return
		}
		n, ok := f.regs[call].(*Term)
		if !ok {
			return
		}
		c := fv.ctx
		st.assume(c.WLe(c.WLit(-1), cur))
		st.assume(c.WLt(cur, n))
		return
	}
}

// ---------------------------------------------------------------------------
// loop-modified state

type aliasRef struct {
	f *Frame
	v ssa.Value
}

type modSet struct {
	alias  map[ssa.Value]aliasRef
	cells  map[cellKey]bool
	heaps  map[string]bool
	all    bool
	allocs bool
	callbacks bool
	calls     map[string]bool // names of everything that may be called inside the loop
}

// loopMods: what the body of the loop may modify (static scan from the entry state).
func (fv *FuncVer) loopMods(st *State, f *Frame, li *loopInfo) (*modSet, []*ssa.BasicBlock) {
	ms := &modSet{cells: map[cellKey]bool{}, heaps: map[string]bool{}, alias: map[ssa.Value]aliasRef{}, calls: map[string]bool{}}
	visited := map[*ssa.Function]bool{}
	var blocks []*ssa.BasicBlock
	for b := range li.body {
		blocks = append(blocks, b)
	}
	sort.Slice(blocks, func(i, j int) bool { return blocks[i].Index < blocks[j].Index })
	fv.collectMods(st, f, blocks, ms, visited, f.bindings)
	return ms, blocks
}

func (ms *modSet) heapKeys() []string {
	if ms.all {
		return nil
	}
	var hks []string
	for k := range ms.heaps {
		hks = append(hks, k)
	}
	sort.Strings(hks)
	return hks
}

// loopFrame: for a function with an `assigns` clause, every loop carries the implicit
// invariant that objects which existed at function entry and are outside the clause are
// unchanged in the stores the loop may write. phase: "entry"/"preserve" check it, "assume"
// adds it after the havoc. Without it the frame of a function with loops cannot be proved.
func (fv *FuncVer) loopFrame(st *State, f *Frame, key, phase string, hks []string) {
	if fv.block == nil || st.old == nil || len(hks) == 0 {
		return
	}
	as, ok := fv.block.Flags["assigns"]
	if !ok || fv.block.Flags["frame"] == "assumed" {
		return
	}
	env := fv.frameEnv(st, f)
	for k, v := range fv.entryVars {
		if _, ok := env.vars[k]; !ok {
			env.vars[k] = v // pointee:<param> refers to the entry value of the parameter
		}
	}
	allowed := map[string]bool{}
	var pts []pointee
	for _, k := range fv.parseAssigns(as, env) {
		if k == "*" {
			return
		}
		if strings.HasPrefix(k, "pointee|") {
			pts = append(pts, fv.pointees[k])
			continue
		}
		allowed[k] = true
	}
	nr0 := st.old.nextRef
	for _, k := range hks {
		cur, ok1 := st.heaps[k]
		old, ok2 := st.old.heaps[k]
		if !ok1 || !ok2 || allowed[k] || (phase != "assume" && sameTerm(cur, old)) {
			continue
		}
		r := BoundVar("r_q", SInt)
		guard := []*Term{ILe(IntLit(0), r), ILt(r, nr0)}
		for _, p := range pts {
			if p.key == k {
				guard = append(guard, Not(Eq(r, p.ref)))
			}
		}
		fml := Forall([]*Term{r}, Implies(And(guard...), Eq(Select(cur, r), Select(old, r))), Select(cur, r))
		if phase == "assume" {
			st.assume(fml)
		} else {
			fv.oblige(st, "loop:"+key+"/"+phase+"[frame:"+k+"]", "", token.NoPos, fml, "objects of "+k+" that existed at entry are unchanged by the loop (assigns "+as+")")
		}
	}
}

func (fv *FuncVer) havocLoop(st *State, f *Frame, li *loopInfo, ms *modSet, blocks []*ssa.BasicBlock) {
	// the body may allocate: advance the allocation counter BEFORE any fresh value is made, so
	// that the well-formedness facts of havocked variables (slice base < next reference) refer to
	// the counter after the loop's allocations and not to the one on entry
	{
		nr := fv.ctx.Fresh("nr", SInt)
		st.assume(IGe(nr, st.nextRef))
		if nr.Sym != nil {
			nr.Sym.Lower = st.nextRef
		}
		st.nextRef = nr
	}
	if ms.all {
		fv.havocAll(st, "loop body with unknown effects")
	}
	// events of earlier iterations are not on this path: leave markers
	var cn []string
	for n := range ms.calls {
		cn = append(cn, n)
	}
	sort.Strings(cn)
	for _, n := range cn {
		st.events = append(st.events, Event{Name: n, Site: "loop", Maybe: true})
	}
	var cks []cellKey
	for k := range ms.cells {
		cks = append(cks, k)
	}
	sort.Slice(cks, func(i, j int) bool {
		if cks[i].frame != cks[j].frame {
			return cks[i].frame < cks[j].frame
		}
		return cks[i].alloc.Pos() < cks[j].alloc.Pos()
	})
	for _, k := range cks {
		cur, ok := st.cells[k]
		if !ok {
			continue // declared inside the loop
		}
		et := k.alloc.Type().(*types.Pointer).Elem()
		if _, isTerm := cur.(*Term); !isTerm {
			panic(unsupported("loop modifies a cell holding a structured pointer: " + k.alloc.Comment))
		}
		st.cells[k] = fv.freshVal(st, "lv_"+k.alloc.Comment, et)
	}
	var hks []string
	for k := range ms.heaps {
		hks = append(hks, k)
	}
	sort.Strings(hks)
	if os.Getenv("GOCV_DEBUG_LOOPS") != "" {
		fmt.Fprintf(os.Stderr, "loop %s.%d mods: all=%v heaps=%v cells=%d\n", f.fn.Name(), li.header.Index, ms.all, hks, len(cks))
	}
	if !ms.all {
		fv.havocKeys(st, hks)
	}
	// ghost locals updated by `aftercall <name>` hooks whose call can happen in the loop
	if fv.block != nil && !(ms.callbacks || ms.all) {
		for _, cl := range fv.block.ClausesOf("aftercall") {
			hit := false
			for n := range ms.calls {
				if n == cl.Target || strings.HasSuffix(n, "."+cl.Target) || strings.HasSuffix(n, ")."+cl.Target) {
					hit = true
				}
			}
			if gl, ok := fv.ghostLocals[cl.Var]; ok && hit {
				cur, ok := st.globals["gl:"+cl.Var]
				if !ok {
					cur = gl.init
				}
				st.globals["gl:"+cl.Var] = fv.ctx.Fresh("gl_"+cl.Var, cur.Sort)
			}
		}
	}
	// ghost locals are changed by callback contracts
	if ms.callbacks || ms.all {
		for name, gl := range fv.ghostLocals {
			cur, ok := st.globals["gl:"+name]
			if !ok {
				cur = gl.init
			}
			st.globals["gl:"+name] = fv.ctx.Fresh("gl_"+name, cur.Sort)
		}
	}
	// map iterator visited sets of ranges declared in this frame (loop carried)
	for k, v := range st.globals {
		if strings.HasPrefix(k, fmt.Sprintf("iter:%d:", f.id)) {
			st.globals[k] = fv.ctx.Fresh("vis", v.Sort)
		}
	}
	// iterators created just before the loop: make their visited set symbolic
	for _, b := range blocks {
		for _, ins := range b.Instrs {
			if nx, ok := ins.(*ssa.Next); ok {
				if r, ok := nx.Iter.(*ssa.Range); ok {
					if it, ok := f.regs[r].(*MapIter); ok {
						k := fv.iterKey(st, r)
						if _, done := st.globals[k]; !done {
							st.globals[k] = fv.ctx.Fresh("vis", it.Visited.Sort)
						}
					}
				}
			}
		}
	}
}

func (fv *FuncVer) collectMods(st *State, f *Frame, blocks []*ssa.BasicBlock, ms *modSet, visited map[*ssa.Function]bool, bindings []Val) {
	for _, b := range blocks {
		for _, ins := range b.Instrs {
			// channel operations and spawns are pseudo calls (aftercall hooks may update ghosts)
			if ms.calls != nil {
				switch y := ins.(type) {
				case *ssa.Select:
					ms.calls["select"] = true
				case *ssa.Send:
					ms.calls["chan.send"] = true
				case *ssa.Go:
					ms.calls["go"] = true
				case *ssa.UnOp:
					if y.Op == token.ARROW {
						ms.calls["chan.recv"] = true
					}
				}
			}
			switch x := ins.(type) {
			case *ssa.Store:
				fv.modAddr(st, f, x.Addr, ms, bindings)
			case *ssa.MapUpdate:
				mt := x.Map.Type().Underlying().(*types.Map)
				hk, vk, lk, _, _, _ := fv.mapHeaps(st, mt)
				ms.heaps[hk], ms.heaps[vk], ms.heaps[lk] = true, true, true
			case *ssa.Alloc, *ssa.MakeMap, *ssa.MakeSlice, *ssa.MakeClosure, *ssa.MakeInterface:
				ms.allocs = true
				if a, ok := x.(*ssa.Alloc); ok && a.Heap {
					k, _ := fv.heapKey(a.Type().(*types.Pointer).Elem())
					ms.heaps[k] = true
				}
				if m, ok := x.(*ssa.MakeMap); ok {
					hk, vk, lk, _, _, _ := fv.mapHeaps(st, m.Type().Underlying().(*types.Map))
					ms.heaps[hk], ms.heaps[vk], ms.heaps[lk] = true, true, true
				}
				if m, ok := x.(*ssa.MakeSlice); ok {
					k, _ := fv.elemsKey(m.Type().Underlying().(*types.Slice).Elem())
					ms.heaps[k] = true
				}
			case *ssa.Convert:
				if sl, ok := x.Type().Underlying().(*types.Slice); ok {
					if b := basicOf(x.X.Type()); b != nil && b.Info()&types.IsString != 0 {
						k, _ := fv.elemsKey(sl.Elem())
						ms.heaps[k] = true
					}
				}
			case *ssa.Slice:
				if pt, ok := x.X.Type().Underlying().(*types.Pointer); ok {
					if n, isB := isByteArray(pt.Elem()); isB && n >= fv.ctx.opaqueMin {
						k, _ := fv.elemsKey(pt.Elem().Underlying().(*types.Array).Elem())
						ms.heaps[k] = true
					}
				}
			case *ssa.SliceToArrayPointer:
				k, _ := fv.heapKey(x.Type().Underlying().(*types.Pointer).Elem())
				ms.heaps[k] = true
			case ssa.CallInstruction:
				fv.modCall(st, f, x, ms, visited, bindings)
			}
		}
	}
}

func (fv *FuncVer) modAddr(st *State, f *Frame, addr ssa.Value, ms *modSet, bindings []Val) {
	switch a := addr.(type) {
	case *ssa.Alloc:
		if a.Heap {
			k, _ := fv.heapKey(a.Type().(*types.Pointer).Elem())
			ms.heaps[k] = true
			return
		}
		if a.Parent() == f.fn {
			ms.cells[cellKey{f.id, a}] = true
		} else {
			// alloc of an inlined callee scanned statically: its cells are created inside the loop
		}
	case *ssa.FreeVar:
		// captured variable: resolve through the current bindings
		if a.Parent() == f.fn {
			for i, v := range f.fn.FreeVars {
				if v == a && i < len(bindings) {
					fv.modVal(bindings[i], a.Type(), ms)
					return
				}
			}
		}
		// free variable of a statically scanned closure: find binding at its MakeClosure
		ms.all = true
	case *ssa.FieldAddr:
		fv.modThrough(st, f, a.X, ms, bindings)
	case *ssa.IndexAddr:
		switch u := a.X.Type().Underlying().(type) {
		case *types.Slice:
			k, _ := fv.elemsKey(u.Elem())
			ms.heaps[k] = true
		case *types.Pointer:
			fv.modThrough(st, f, a.X, ms, bindings)
		}
	case *ssa.Global:
		ms.all = true
	default:
		fv.modPtrValue(st, f, addr, ms, bindings, 0)
	}
}

// modPtrValue: a store through pointer-valued SSA value p whose defining
// instruction is not an address computation.
func (fv *FuncVer) modPtrValue(st *State, f *Frame, p ssa.Value, ms *modSet, bindings []Val, depth int) {
	if v, ok := f.regs[p]; ok {
		if _, isLoc := v.(*Loc); isLoc {
			fv.modVal(v, p.Type(), ms)
			return
		}
	}
	if al, ok := ms.alias[p]; ok && depth < 8 {
		switch a := al.v.(type) {
		case *ssa.Alloc, *ssa.FreeVar, *ssa.FieldAddr, *ssa.IndexAddr, *ssa.Global:
			fv.modAddr(st, al.f, a, ms, al.f.bindings)
		default:
			fv.modPtrValue(st, al.f, al.v, ms, al.f.bindings, depth+1)
		}
		return
	}
	if u, ok := p.(*ssa.UnOp); ok && u.Op == token.MUL && depth < 8 {
		// pointer loaded from a local variable: look at everything stored into that variable
		if a, ok := u.X.(*ssa.Alloc); ok && !a.Heap {
			if cur, ok := st.cells[cellKey{f.id, a}]; ok {
				if _, isLoc := cur.(*Loc); isLoc {
					fv.modVal(cur, p.Type(), ms)
				}
			}
			for _, ref := range *a.Referrers() {
				if s, ok := ref.(*ssa.Store); ok && s.Addr == a {
					switch sv := s.Val.(type) {
					case *ssa.Alloc, *ssa.FreeVar, *ssa.FieldAddr, *ssa.IndexAddr, *ssa.Global:
						fv.modAddr(st, f, sv, ms, bindings)
					case *ssa.Const:
					default:
						fv.modPtrValue(st, f, sv, ms, bindings, depth+1)
					}
				}
			}
			return
		}
	}
	if pt, ok := p.Type().Underlying().(*types.Pointer); ok {
		k, _ := fv.heapKey(pt.Elem())
		ms.heaps[k] = true
		return
	}
	ms.all = true
}

// modThrough: a store into a field/element reached through pointer value p.
func (fv *FuncVer) modThrough(st *State, f *Frame, p ssa.Value, ms *modSet, bindings []Val) {
	switch a := p.(type) {
	case *ssa.Alloc, *ssa.FreeVar, *ssa.FieldAddr, *ssa.IndexAddr:
		fv.modAddr(st, f, a, ms, bindings)
	default:
		fv.modPtrValue(st, f, p, ms, bindings, 0)
	}
}

func (fv *FuncVer) modVal(v Val, t types.Type, ms *modSet) {
	switch l := v.(type) {
	case *Loc:
		switch l.Kind {
		case rootCell:
			ms.cells[l.Cell] = true
		case rootHeap:
			k, _ := fv.heapKey(l.Typ)
			ms.heaps[k] = true
		case rootElems:
			k, _ := fv.elemsKey(l.Typ)
			ms.heaps[k] = true
		case rootGlobal:
			ms.all = true
		}
	case *Term:
		et := t.Underlying().(*types.Pointer).Elem()
		k, _ := fv.heapKey(et)
		ms.heaps[k] = true
	default:
		ms.all = true
	}
}

func (fv *FuncVer) modCall(st *State, f *Frame, ci ssa.CallInstruction, ms *modSet, visited map[*ssa.Function]bool, bindings []Val) {
	cc := ci.Common()
	if ms.calls != nil {
		switch {
		case cc.IsInvoke():
			ms.calls[ifaceMethodName(cc.Value.Type(), cc.Method)] = true
		default:
			if fn, ok := cc.Value.(*ssa.Function); ok {
				ms.calls[fn.String()] = true
			} else if _, ok := cc.Value.(*ssa.Builtin); !ok {
				name := "funcvalue"
				if p := paramOf(cc.Value); p != nil {
					name = "param:" + p.Name()
				}
				ms.calls[name] = true
			}
		}
	}
	if _, isGo := ci.(*ssa.Go); isGo {
		return
	}
	if cc.IsInvoke() {
		blk := fv.eng.ifaceBlock(cc.Value.Type(), cc.Method)
		fv.modBlock(blk, ms)
		return
	}
	switch cv := cc.Value.(type) {
	case *ssa.Builtin:
		switch cv.Name() {
		case "append":
			if sl, ok := cc.Args[0].Type().Underlying().(*types.Slice); ok {
				k, _ := fv.elemsKey(sl.Elem())
				ms.heaps[k] = true
			}
		case "copy":
			if sl, ok := cc.Args[0].Type().Underlying().(*types.Slice); ok {
				k, _ := fv.elemsKey(sl.Elem())
				ms.heaps[k] = true
			}
		case "delete":
			mt := cc.Args[0].Type().Underlying().(*types.Map)
			hk, vk, lk, _, _, _ := fv.mapHeaps(st, mt)
			ms.heaps[hk], ms.heaps[vk], ms.heaps[lk] = true, true, true
		case "clear":
			ms.all = true
		}
		return
	case *ssa.Function:
		if fv.eng.hasModel(cv) {
			for _, k := range fv.eng.modelMods(fv, cv, cc) {
				ms.heaps[k] = true
			}
			return
		}
		blk := fv.eng.funcBlock(cv)
		if fv.shouldInline(cv, blk) {
			fv.modInlined(st, f, cv, nil, cc, ms, visited)
			return
		}
		if blk != nil {
			// `assigns pointee:<param>`: a store through the corresponding argument
			if as, ok := blk.Flags["assigns"]; ok && strings.Contains(as, "pointee:") {
				var rest []string
				okAll := true
				for _, part := range strings.Split(as, ",") {
					part = strings.TrimSpace(part)
					if !strings.HasPrefix(part, "pointee:") {
						rest = append(rest, part)
						continue
					}
					name := strings.TrimPrefix(part, "pointee:")
					found := false
					params := cv.Params
					for i, p := range params {
						if p.Name() == name && i < len(cc.Args) {
							fv.modThrough(st, f, cc.Args[i], ms, bindings)
							found = true
						}
					}
					if !found {
						okAll = false
					}
				}
				if okAll {
					nb := *blk
					nb.Flags = map[string]string{}
					for k, v := range blk.Flags {
						nb.Flags[k] = v
					}
					nb.Flags["assigns"] = strings.Join(rest, ", ")
					if len(rest) == 0 {
						nb.Flags["assigns"] = "nothing"
					}
					fv.modBlock(&nb, ms)
					return
				}
			}
			fv.modBlock(blk, ms)
			return
		}
		if !fv.eng.assumedPure(cv) {
			if os.Getenv("GOCV_DEBUG_LOOPS") != "" {
				fmt.Fprintf(os.Stderr, "loop: unknown effects of call to %s\n", cv.String())
			}
			ms.all = true
		}
		return
	case *ssa.MakeClosure:
		fv.modInlined(st, f, cv.Fn.(*ssa.Function), cv, cc, ms, visited)
		return
	}
	// call through a value: closure stored in a local, or callback
	if v, ok := f.regs[cc.Value]; ok {
		if cl, ok := v.(*Closure); ok {
			if visited[cl.Fn] {
				return
			}
			visited[cl.Fn] = true
			nf := &Frame{id: -1, fn: cl.Fn, regs: map[ssa.Value]Val{}, bindings: cl.Bindings}
			fv.collectMods(st, nf, cl.Fn.Blocks, ms, visited, cl.Bindings)
			return
		}
	}
	// look for the closure by loading from a local cell holding it
	if u, ok := cc.Value.(*ssa.UnOp); ok {
		if a, ok := u.X.(*ssa.Alloc); ok {
			if v, ok := st.cells[cellKey{f.id, a}]; ok {
				if cl, ok := v.(*Closure); ok {
					if visited[cl.Fn] {
						return
					}
					visited[cl.Fn] = true
					nf := &Frame{id: -1, fn: cl.Fn, regs: map[ssa.Value]Val{}, bindings: cl.Bindings}
					fv.collectMods(st, nf, cl.Fn.Blocks, ms, visited, cl.Bindings)
					return
				}
			}
		}
	}
	// ... or from a captured variable of an enclosing function
	if u, ok := cc.Value.(*ssa.UnOp); ok {
		if fvar, ok := u.X.(*ssa.FreeVar); ok && fvar.Parent() != nil {
			for i, v := range fvar.Parent().FreeVars {
				if v != fvar || i >= len(bindings) {
					continue
				}
				if l, ok := bindings[i].(*Loc); ok {
					if cl, ok := fv.loadVal(st, l).(*Closure); ok {
						if visited[cl.Fn] {
							return
						}
						visited[cl.Fn] = true
						nf := &Frame{id: -1, fn: cl.Fn, regs: map[ssa.Value]Val{}, bindings: cl.Bindings}
						fv.collectMods(st, nf, cl.Fn.Blocks, ms, visited, cl.Bindings)
						return
					}
				}
			}
		}
	}
	ms.callbacks = true
	if fv.block != nil && fv.block.Flags["callbacks"] == "pure" {
		return
	}
	ms.all = true
}

// loadVal reads a location without failing on locations that hold no value yet.
func (fv *FuncVer) loadVal(st *State, l *Loc) (v Val) {
	defer func() {
		if r := recover(); r != nil {
			v = nil
		}
	}()
	return fv.load(st, l)
}

func (fv *FuncVer) modInlined(st *State, f *Frame, fn *ssa.Function, mc *ssa.MakeClosure, cc *ssa.CallCommon, ms *modSet, visited map[*ssa.Function]bool) {
	if visited[fn] {
		return
	}
	visited[fn] = true
	var bindings []Val
	if mc != nil {
		for _, b := range mc.Bindings {
			if v, ok := f.regs[b]; ok {
				bindings = append(bindings, v)
			} else if a, ok := b.(*ssa.Alloc); ok && !a.Heap {
				bindings = append(bindings, &Loc{Kind: rootCell, Cell: cellKey{f.id, a}})
			} else {
				bindings = append(bindings, nil)
			}
		}
	}
	nf := &Frame{id: -1, fn: fn, regs: map[ssa.Value]Val{}, bindings: bindings}
	// pointer parameters that are locations in the caller
	for i, p := range fn.Params {
		if i < len(cc.Args) {
			if v, ok := f.regs[cc.Args[i]]; ok {
				nf.regs[p] = v
			} else {
				ms.alias[p] = aliasRef{f, cc.Args[i]}
			}
		}
	}
	fv.collectMods(st, nf, fn.Blocks, ms, visited, bindings)
}

func (fv *FuncVer) modBlock(blk *Block, ms *modSet) {
	if blk == nil {
		ms.all = true
		return
	}
	if blk.Has("pure") {
		return
	}
	as, ok := blk.Flags["assigns"]
	if !ok {
		ms.all = true
		return
	}
	env := &SpecEnv{fv: fv, pkg: fv.eng.pkgOfBlock(blk)}
	defer func() {
		// pointee:<param> cannot be resolved statically: fall back to everything
		if r := recover(); r != nil {
			if _, ok := r.(specError); ok {
				ms.all = true
				return
			}
			panic(r)
		}
	}()
	for _, k := range fv.parseAssigns(as, env) {
		if k == "*" {
			ms.all = true
		} else if strings.HasPrefix(k, "pointee|") {
			ms.heaps[fv.pointees[k].key] = true
		} else {
			ms.heaps[k] = true
		}
	}
}
