package main

// Calls: inlining (closures, `inline` functions), contracts (repo functions,
// interface methods, externs), built-in models, and conservative havoc.

import (
	"sort"
	"fmt"
	"os"
	"go/token"
	"go/types"
	"strings"

	"golang.org/x/tools/go/ssa"
)

func (fv *FuncVer) call(st *State, ins ssa.Instruction, cc *ssa.CallCommon, res ssa.Value) bool {
	f := st.top()
	var args []Val
	if cc.IsInvoke() {
		recv := fv.val(st, cc.Value)
		args = append(args, recv)
		for _, a := range cc.Args {
			args = append(args, fv.val(st, a))
		}
		r := fv.invoke(st, ins, cc, args)
		fv.bindResult(st, res, r)
		fv.afterCall(st, ifaceMethodName(cc.Value.Type(), cc.Method))
		f.ip++
		return true
	}
	for _, a := range cc.Args {
		args = append(args, fv.val(st, a))
	}
	callee := fv.val(st, cc.Value)
	return fv.callValue(st, ins, callee, args, res, cc)
}

// afterCall applies the `aftercall <callee> : ghost = expr` clauses of the function under
// verification once a call made directly by it has returned.
func (fv *FuncVer) afterCall(st *State, calleeName string) {
	if fv.block == nil || len(st.frames) != 1 {
		return
	}
	var env *SpecEnv
	type upd struct {
		name string
		v    *Term
	}
	var ups []upd
	for _, cl := range fv.block.ClausesOf("aftercall") {
		if !(cl.Target == calleeName || strings.HasSuffix(calleeName, "."+cl.Target) || strings.HasSuffix(calleeName, ")."+cl.Target)) {
			continue
		}
		if env == nil {
			env = fv.frameEnv(st, st.top())
			for k, v := range fv.entryVars {
				if _, ok := env.vars[k]; !ok {
					env.vars[k] = v
				}
			}
		}
		ups = append(ups, upd{cl.Var, env.eval(cl.Expr).T})
		fv.hookFired[cl] = true
	}
	for _, u := range ups {
		st.globals["gl:"+u.name] = u.v
	}
	// `assumeafter <callee> [label] : expr`: an explicit, unchecked assumption about the
	// results of calls made so far (listed in the evidence)
	for _, cl := range fv.block.ClausesOf("assumeafter") {
		if !(cl.Target == calleeName || strings.HasSuffix(calleeName, "."+cl.Target) || strings.HasSuffix(calleeName, ")."+cl.Target)) {
			continue
		}
		env := fv.frameEnv(st, st.top())
		for k, v := range fv.entryVars {
			if _, ok := env.vars[k]; !ok {
				env.vars[k] = v
			}
		}
		st.assume(fv.evalBool(env, cl.Expr))
		fv.hookFired[cl] = true
	}
}

func (fv *FuncVer) bindResult(st *State, res ssa.Value, r Val) {
	if res == nil {
		return
	}
	if t, ok := r.(*Term); ok {
		fv.setReg(st, res, t)
	} else {
		st.top().regs[res] = r
	}
}

// callValue calls a function value. On return the caller's ip has been advanced
// (for inlined calls this happens when the callee returns).
func (fv *FuncVer) callValue(st *State, ins ssa.Instruction, callee Val, args []Val, res ssa.Value, cc *ssa.CallCommon) bool {
	f := st.top()
	switch cv := callee.(type) {
	case *BuiltinRef:
		r := fv.builtin(st, ins, cv.B, args, cc)
		fv.bindResult(st, res, r)
		f.ip++
		return true
	case *Closure:
		return fv.inline(st, ins, cv.Fn, args, cv.Bindings, res)
	case *FuncRef:
		fn := cv.Fn
		if r, ok := fv.model(st, ins, fn, args, cc); ok {
			fv.bindResult(st, res, r)
			fv.afterCall(st, fn.String())
			f.ip++
			return true
		}
		blk := fv.eng.funcBlock(fn)
		if fv.shouldInline(fn, blk) {
			return fv.inline(st, ins, fn, args, nil, res)
		}
		if blk != nil {
			r := fv.applyContract(st, ins, blk, fn.String(), fv.eng.shortFuncName(fn), fn.Signature, fn, args)
			fv.bindResult(st, res, r)
			fv.afterCall(st, fn.String())
			f.ip++
			return true
		}
		r := fv.unknownCall(st, ins, fn.String(), fn.Signature, args, fv.eng.assumedPure(fn))
		fv.bindResult(st, res, r)
		f.ip++
		return true
	case *Term, *Loc:
		// call through a function value we know nothing about
		sig, _ := cc.Value.Type().Underlying().(*types.Signature)
		name := "funcvalue"
		if p := paramOf(cc.Value); p != nil {
			name = "param:" + p.Name()
		} else if pn := fv.entryParamOf(callee); pn != "" {
			// a function-typed parameter of the function under verification reached through a
			// closure that captured it
			name = "param:" + pn
		}
		r := fv.callbackCall(st, ins, name, sig, args, cc)
		fv.bindResult(st, res, r)
		f.ip++
		return true
	}
	panic(unsupported(fmt.Sprintf("call of %T", callee)))
}

func (fv *FuncVer) shouldInline(fn *ssa.Function, blk *Block) bool {
	if fn.Blocks == nil {
		return false
	}
	if blk != nil {
		return blk.Has("inline")
	}
	if fn.Parent() != nil {
		return true // anonymous function called directly
	}
	return false
}

func (fv *FuncVer) inline(st *State, ins ssa.Instruction, fn *ssa.Function, args []Val, bindings []Val, res ssa.Value) bool {
	if len(st.frames) > 12 {
		panic(unsupported("inline depth"))
	}
	for _, fr := range st.frames {
		if fr.fn == fn && fn.Parent() == nil {
			panic(unsupported("recursive inline of " + fn.Name()))
		}
	}
	fv.frameSeq++
	nf := &Frame{id: fv.frameSeq, fn: fn, regs: map[ssa.Value]Val{}, bindings: bindings, call: ins}
	for i, p := range fn.Params {
		nf.regs[p] = args[i]
	}
	st.frames = append(st.frames, nf)
	nf.block = fn.Blocks[0]
	st.trace = append(st.trace, "call "+fn.Name())
	return true
}

// doReturn leaves the current frame with the given results.
func (fv *FuncVer) doReturn(st *State, res []Val) bool {
	f := st.top()
	if len(st.frames) == 1 {
		fv.returns++
		fv.checkEnsures(st, res)
		return false
	}
	// pop inlined frame
	for len(st.loops) > 0 && st.loops[len(st.loops)-1].frame == f.id {
		st.loops = st.loops[:len(st.loops)-1]
	}
	for k := range st.cells {
		if k.frame == f.id {
			// cells of the callee may still be referenced through closures created there; keep them
			_ = k
		}
	}
	st.frames = st.frames[:len(st.frames)-1]
	caller := st.top()
	var r Val
	switch len(res) {
	case 0:
	case 1:
		r = res[0]
	default:
		r = &Tuple{res}
	}
	switch ci := f.call.(type) {
	case *ssa.Call:
		fv.bindResult(st, ci, r)
		caller.ip++
		st.trace = append(st.trace, "ret "+f.fn.Name())
		return true
	case *ssa.Defer, *ssa.RunDefers:
		// returning from a deferred call executed by rundefers: continue running defers
		return fv.runDefers(st)
	case nil:
		return true
	}
	panic("doReturn: unknown call site")
}

// runDefers executes the deferred calls of the current frame (LIFO), then continues.
func (fv *FuncVer) runDefers(st *State) bool {
	f := st.top()
	if len(f.defers) == 0 {
		if f.panicked {
			return fv.unwind(st)
		}
		// the instruction after rundefers
		if _, ok := f.block.Instrs[f.ip].(*ssa.RunDefers); ok {
			f.ip++
		}
		return true
	}
	d := f.defers[len(f.defers)-1]
	f.defers = f.defers[:len(f.defers)-1]
	if d.call.IsInvoke() {
		fv.invoke(st, d.site, d.call, append([]Val{d.fn}, d.args...))
		return fv.runDefers(st)
	}
	switch cv := d.fn.(type) {
	case *Closure:
		fv.inline(st, d.site, cv.Fn, d.args, cv.Bindings, nil)
		// run the inlined deferred function to completion; doReturn re-enters runDefers
		return true
	case *FuncRef:
		if r, ok := fv.model(st, d.site, cv.Fn, d.args, d.call); ok {
			_ = r
			return fv.runDefers(st)
		}
		blk := fv.eng.funcBlock(cv.Fn)
		if fv.shouldInline(cv.Fn, blk) {
			fv.inline(st, d.site, cv.Fn, d.args, nil, nil)
			return true
		}
		if blk != nil {
			fv.applyContract(st, d.site, blk, cv.Fn.String(), fv.eng.shortFuncName(cv.Fn), cv.Fn.Signature, cv.Fn, d.args)
		} else {
			fv.unknownCall(st, d.site, cv.Fn.String(), cv.Fn.Signature, d.args, fv.eng.assumedPure(cv.Fn))
		}
		return fv.runDefers(st)
	case *BuiltinRef:
		fv.builtin(st, d.site, cv.B, d.args, d.call)
		return fv.runDefers(st)
	default:
		sig, _ := d.call.Value.Type().Underlying().(*types.Signature)
		fv.callbackCall(st, d.site, "deferred", sig, d.args, d.call)
		return fv.runDefers(st)
	}
}

// onPanicExit: a panic leaves the function. Deferred calls matter only for
// trace/typestate contracts; we run them when the function has such a contract.
func (fv *FuncVer) onPanicExit(st *State) {
	// panics are either proven unreachable (nopanic) or end the path without ensures
}

func (fv *FuncVer) unwind(st *State) bool { return false }

// ---------------------------------------------------------------------------
// interface method calls

func (fv *FuncVer) invoke(st *State, ins ssa.Instruction, cc *ssa.CallCommon, args []Val) Val {
	it := cc.Value.Type()
	name := ifaceMethodName(it, cc.Method)
	blk := fv.eng.ifaceBlock(it, cc.Method)
	sig := cc.Method.Type().(*types.Signature)
	recv := fv.term(args[0])
	nn := Not(Eq(recv, fv.ctx.NilIface()))
	if fv.nopanic {
		fv.oblige(st, "nilderef", fv.anchorAt(ins.Pos(), "invoke"), ins.Pos(), nn, "interface receiver is not nil")
	}
	st.assume(nn)
	if blk != nil {
		return fv.applyContract(st, ins, blk, name, name, sig, nil, args)
	}
	if cc.Method.Name() == "Error" && len(cc.Args) == 0 {
		return fv.ctx.Func("error_string", fv.ctx.SStr, recv)
	}
	return fv.unknownCall(st, ins, name, sig, args, false)
}

func ifaceMethodName(it types.Type, m *types.Func) string {
	tn := types.TypeString(types.Unalias(it), nil)
	return tn + "." + m.Name()
}

// ---------------------------------------------------------------------------
// unknown calls

func (fv *FuncVer) resultVal(st *State, name string, sig *types.Signature) Val {
	rs := sig.Results()
	switch rs.Len() {
	case 0:
		return nil
	case 1:
		return fv.freshVal(st, "res_"+shorten(name), rs.At(0).Type())
	}
	var vs []Val
	for i := 0; i < rs.Len(); i++ {
		vs = append(vs, fv.freshVal(st, fmt.Sprintf("res%d_%s", i, shorten(name)), rs.At(i).Type()))
	}
	return &Tuple{vs}
}

func shorten(name string) string {
	if i := strings.LastIndex(name, "/"); i >= 0 {
		name = name[i+1:]
	}
	return name
}

func (fv *FuncVer) unknownCall(st *State, ins ssa.Instruction, name string, sig *types.Signature, args []Val, pure bool) Val {
	var ats []*Term
	for _, a := range args {
		ats = append(ats, fv.safeTerm(a))
	}
	if !pure {
		fv.havocAll(st, "call to "+name)
	}
	r := fv.resultVal(st, name, sig)
	var rts []*Term
	switch x := r.(type) {
	case *Term:
		rts = []*Term{x}
	case *Tuple:
		for _, v := range x.Vals {
			rts = append(rts, v.(*Term))
		}
	}
	fv.recordEventT(st, name, ats, rts, ins)
	fv.typeLastEvent(st, sig, len(ats))
	return r
}

// typeLastEvent attaches Go types to the arguments and results of the last event.
func (fv *FuncVer) typeLastEvent(st *State, sig *types.Signature, nargs int) {
	if sig == nil || len(st.events) == 0 {
		return
	}
	ev := &st.events[len(st.events)-1]
	ps := sig.Params()
	off := nargs - ps.Len() // receiver, if any
	ev.ArgTypes = make([]types.Type, nargs)
	for i := 0; i < nargs; i++ {
		if i < off {
			if sig.Recv() != nil {
				ev.ArgTypes[i] = sig.Recv().Type()
			}
			continue
		}
		ev.ArgTypes[i] = ps.At(i - off).Type()
	}
	for i := 0; i < sig.Results().Len(); i++ {
		ev.ResTypes = append(ev.ResTypes, sig.Results().At(i).Type())
	}
}

// callbackCall: call through a function-typed parameter or unknown function value.
func (fv *FuncVer) callbackCall(st *State, ins ssa.Instruction, name string, sig *types.Signature, args []Val, cc *ssa.CallCommon) Val {
	var ats []*Term
	for _, a := range args {
		if t, ok := a.(*Term); ok {
			ats = append(ats, t)
		} else {
			ats = append(ats, fv.safeTerm(a))
		}
	}
	r := fv.resultVal(st, name, sig)
	var rts []*Term
	switch x := r.(type) {
	case *Term:
		rts = []*Term{x}
	case *Tuple:
		for _, v := range x.Vals {
			rts = append(rts, v.(*Term))
		}
	}
	fv.recordEventT(st, name, ats, rts, ins)
	// callback contracts of the function under verification
	cbName := ""
	if p := paramOf(cc.Value); p != nil && len(st.frames) == 1 {
		cbName = p.Name()
	} else if strings.HasPrefix(name, "param:") && len(st.frames) > 1 {
		cbName = strings.TrimPrefix(name, "param:")
	}
	if cbName != "" && fv.block != nil {
		env := fv.newEnv(st, st.old)
		for k, v := range fv.entryVars {
			env.vars[k] = v
		}
		ps := sig.Params()
		for i, a := range ats {
			if i < ps.Len() {
				env.vars[fmt.Sprintf("arg%d", i)] = SVal{T: a, Typ: ps.At(i).Type()}
			}
		}
		env.rawArgs = args
		fv.curCallbackSig = sig
		if len(fv.block.ClausesOf("cbrequires")) > 0 {
			// vacuity guard: the callback contracts are applied on some path
			fv.addCover(st, "callback:"+cbName, "a call of the callback "+cbName+" is reachable and under its contract")
		}
		n := 0
		for _, cl := range fv.block.ClausesOf("cbrequires") {
			if cl.Target != cbName {
				continue
			}
			n++
			label := cl.Name
			if label == "" {
				label = fmt.Sprintf("#%d", n)
			}
			g := fv.evalBool(env, cl.Expr)
			fv.oblige(st, "callback:"+cbName+"/requires["+label+"]", "", ins.Pos(), g, "at every call of "+cbName+": "+cl.Text)
			st.assume(g)
		}
		for i, t := range rts {
			env.vars[fmt.Sprintf("cbresult%d", i)] = SVal{T: t, Typ: sig.Results().At(i).Type()}
			if i == 0 {
				env.vars["cbresult"] = env.vars["cbresult0"]
			}
		}
		// simultaneous update of ghost locals
		type upd struct {
			name string
			v    *Term
		}
		var ups []upd
		for _, cl := range fv.block.ClausesOf("cbupdate") {
			if cl.Target != cbName {
				continue
			}
			v := env.eval(cl.Expr)
			ups = append(ups, upd{cl.Var, v.T})
		}
		for _, u := range ups {
			st.globals["gl:"+u.name] = u.v
		}
	}
	if blk := fv.block; blk != nil && blk.Flags["callbacks"] == "pure" {
		return r
	}
	fv.havocAll(st, "callback "+name)
	return r
}

func (fv *FuncVer) safeTerm(v Val) (t *Term) {
	defer func() {
		if r := recover(); r != nil {
			t = fv.ctx.Fresh("opaque", SInt)
		}
	}()
	return fv.term(v)
}

func (fv *FuncVer) recordEvent(st *State, name string, args []Val, res []*Term, ins ssa.Instruction) {
	var ats []*Term
	for _, a := range args {
		ats = append(ats, fv.safeTerm(a))
	}
	fv.recordEventT(st, name, ats, res, ins)
}

func (fv *FuncVer) recordEventT(st *State, name string, args, res []*Term, ins ssa.Instruction) {
	site := ""
	if ins != nil && ins.Pos().IsValid() {
		p := fv.eng.fset.Position(ins.Pos())
		site = fmt.Sprintf("%s:%d", relPath(p.Filename), p.Line)
	}
	// an instantiated generic function is named like its origin (slices.Compact[[]uint64,uint64]
	// is "slices.Compact" to every contract that speaks about calls)
	if i := strings.Index(name, "["); i > 0 && strings.HasSuffix(name, "]") {
		name = name[:i]
	}
	st.events = append(st.events, Event{Name: name, Args: args, Results: res, Site: site})
}

// havocAll forgets everything about the heap, maps and globals (not local cells).
func (fv *FuncVer) havocAll(st *State, why string) {
	var hvd []string
	for k := range st.heaps {
		st.heaps[k] = fv.ctx.Fresh("hv_"+k, st.heaps[k].Sort)
		hvd = append(hvd, k)
	}
	sort.Strings(hvd)
	defer func() {
		for _, k := range hvd {
			if ax := fv.heapWF(k, st.heaps[k], st.nextRef); ax != nil {
				st.assume(ax)
			}
		}
	}()
	for k := range st.globals {
		if strings.HasPrefix(k, "iter:") || strings.HasPrefix(k, "gl:") {
			continue
		}
		if fv.eng.immutableGlobal(k) {
			continue
		}
		st.globals[k] = fv.ctx.Fresh("gv_"+k, st.globals[k].Sort)
	}
	nr := fv.ctx.Fresh("nr", SInt)
	st.assume(IGe(nr, st.nextRef))
	if nr.Sym != nil {
		nr.Sym.Lower = st.nextRef
	}
	st.nextRef = nr
	fv.note(st, "havoc: "+why)
	if os.Getenv("GOCV_DEBUG_HAVOC") != "" {
		fmt.Fprintf(os.Stderr, "havoc-all in %s: %s\n", fv.shortName(), why)
	}
}

func (fv *FuncVer) havocKeys(st *State, keys []string) {
	var hvd []string // element / object stores replaced by fresh ones
	for _, k := range keys {
		if k == "*" {
			fv.havocAll(st, "assigns *")
			return
		}
	}
	for _, k := range keys {
		switch {
		case strings.HasPrefix(k, "pointee|"):
			pe := fv.pointees[k]
			hs := fv.heapSorts[pe.key]
			if hs == nil {
				continue
			}
			h := fv.heap(st, pe.key, hs)
			st.heaps[pe.key] = fv.ctx.Name("h", Store(h, pe.ref, fv.ctx.Fresh("pointee", hs.Elem)))
		case strings.HasPrefix(k, "ghost:"), strings.HasPrefix(k, "global:"):
			name := strings.TrimPrefix(strings.TrimPrefix(k, "global:"), "ghost:")
			if strings.HasPrefix(k, "ghost:") {
				name = "ghost:" + name
			}
			if cur, ok := st.globals[name]; ok {
				st.globals[name] = fv.ctx.Fresh("gv_"+name, cur.Sort)
			} else if g := fv.eng.ghosts[strings.TrimPrefix(name, "ghost:")]; g != nil {
				// first touch: create the initial value so old() can refer to it, then havoc
				fv.ghostValue(st, g)
				st.globals[name] = fv.ctx.Fresh("gv_"+name, st.globals[name].Sort)
			}
		default:
			hvd = append(hvd, k)
			if cur, ok := st.heaps[k]; ok {
				st.heaps[k] = fv.ctx.Fresh("hv_"+k, cur.Sort)
			} else {
				// untouched so far: touching it later yields the initial constant, which would
				// wrongly equal the pre-call value. Register a fresh one now if we know the sort.
				if s := fv.sortOfHeapKey(k); s != nil {
					fv.heap(st, k, s) // registers initial constant in old state
					st.heaps[k] = fv.ctx.Fresh("hv_"+k, s)
				}
			}
		}
	}
	nr := fv.ctx.Fresh("nr", SInt)
	st.assume(IGe(nr, st.nextRef))
	if nr.Sym != nil {
		nr.Sym.Lower = st.nextRef
	}
	st.nextRef = nr
	for _, k := range hvd {
		if ax := fv.heapWF(k, st.heaps[k], st.nextRef); ax != nil {
			st.assume(ax)
		}
	}
}

// ---------------------------------------------------------------------------
// contracts at call sites

func (fv *FuncVer) applyContract(st *State, ins ssa.Instruction, blk *Block, fullName, short string, sig *types.Signature, fn *ssa.Function, args []Val) Val {
	c := fv.ctx
	env := fv.newEnv(st, st)
	env.pkg = fv.eng.pkgOfBlock(blk)
	env.scopePos = token.NoPos
	// bind parameters by name
	names := paramNames(sig, fn, blk)
	var ats []*Term
	var boxes []boxedArg
	isPure := blk.Has("pure") && blk.Flags["pure"] != "nondet"
	for i, a := range args {
		var t *Term
		if l, ok := a.(*Loc); ok && (len(l.Path) > 0 || l.Kind == rootCell || l.Kind == rootGlobal) {
			if isPure {
				// pure functions read the pointee, never the address
				t = fv.ctx.Fresh("addr", SInt)
				st.assume(Not(Eq(t, IntLit(0))))
			} else {
				// copy-in / copy-out through a temporary heap object (the callee must not retain the pointer)
				t = fv.newRef(st)
				tmp := &Loc{Kind: rootHeap, Ref: t, Typ: l.ElTyp, ElTyp: l.ElTyp}
				fv.store(st, tmp, fv.load(st, l))
				boxes = append(boxes, boxedArg{l, tmp})
			}
		} else {
			t = fv.argTerm(st, a)
		}
		ats = append(ats, t)
		if i < len(names) && names[i].name != "" && names[i].name != "_" {
			env.vars[names[i].name] = SVal{T: t, Typ: names[i].typ}
			if isPure && names[i].typ != nil {
				// a pure function sees the pointee: its contract talks about the value
				if pt, ok := types.Unalias(names[i].typ).Underlying().(*types.Pointer); ok {
					if pv := fv.pureArgVal(st, a, t, names, i); len(pv) == 1 && pv[0] != t {
						env.vars[names[i].name] = SVal{T: pv[0], Typ: pt.Elem()}
					}
				}
			}
		}
	}
	// all call sites of one callee share one obligation per clause: renaming an argument, or
	// adding a call site, must not create a fresh (unlisted) obligation next to a vanished one
	site := ""
	_ = fv.callSiteAnchor
	trusted := false
	if tc, ok := fv.block.Flags["trustcalls"]; ok && len(st.frames) == 1 {
		for _, n := range strings.Fields(strings.ReplaceAll(tc, ",", " ")) {
			if strings.HasSuffix(fullName, "."+n) || strings.HasSuffix(fullName, ")."+n) {
				trusted = true
				fv.trustedCalls[short] = true
			}
		}
	}
	for i, cl := range blk.ClausesOf("requires") {
		g := fv.evalBool(env, cl.Expr)
		label := cl.Name
		if label == "" {
			label = fmt.Sprintf("#%d", i+1)
		}
		if !trusted {
			fv.oblige(st, "call:"+short+"/requires["+label+"]", site, ins.Pos(), g, "precondition of "+short+": "+cl.Text)
		}
		st.assume(g)
	}
	// precall: obligations on the caller's path (its call events) that are not assumed inside the callee
	for i, cl := range blk.ClausesOf("precall") {
		g := fv.evalBool(env, cl.Expr)
		label := cl.Name
		if label == "" {
			label = fmt.Sprintf("#%d", i+1)
		}
		fv.oblige(st, "call:"+short+"/precall["+label+"]", site, ins.Pos(), g, "on the caller's path before "+short+": "+cl.Text)
		st.assume(g)
	}
	pre := st.clone()
	pre.frames = st.frames // share (read-only use)
	// frame
	if as, ok := blk.Flags["assigns"]; ok {
		fv.havocKeys(st, fv.parseAssigns(as, env))
	} else if !blk.Has("pure") {
		fv.havocAll(st, "call to "+short+" (no assigns clause)")
	}
	// results
	var r Val
	var rts []*Term
	rs := sig.Results()
	if blk.Has("pure") && blk.Flags["pure"] != "nondet" {
		// deterministic function of its arguments
		var fargs []*Term
		for i := range ats {
			fargs = append(fargs, fv.pureArgVal(st, args[i], ats[i], names, i)...)
		}
		switch rs.Len() {
		case 0:
		case 1:
			t := c.Func("pure_"+fullName, c.SortOf(rs.At(0).Type()), fargs...)
			st.assume(fv.wf(st, t, rs.At(0).Type(), 1))
			rts = []*Term{t}
		default:
			for i := 0; i < rs.Len(); i++ {
				t := c.Func(fmt.Sprintf("pure%d_%s", i, fullName), c.SortOf(rs.At(i).Type()), fargs...)
				st.assume(fv.wf(st, t, rs.At(i).Type(), 1))
				rts = append(rts, t)
			}
		}
	} else {
		for i := 0; i < rs.Len(); i++ {
			rts = append(rts, fv.freshVal(st, fmt.Sprintf("res%d_%s", i, shorten(short)), rs.At(i).Type()))
		}
	}
	switch len(rts) {
	case 0:
	case 1:
		r = rts[0]
	default:
		var vs []Val
		for _, t := range rts {
			vs = append(vs, t)
		}
		r = &Tuple{vs}
	}
	// ensures
	post := fv.newEnv(st, pre)
	post.pkg = env.pkg
	for k, v := range env.vars {
		post.vars[k] = v
	}
	for i := 0; i < rs.Len(); i++ {
		n := rs.At(i).Name()
		sv := SVal{T: rts[i], Typ: rs.At(i).Type()}
		if n != "" && n != "_" {
			post.vars[n] = sv
		}
		post.vars[fmt.Sprintf("result%d", i)] = sv
		if i == 0 {
			post.vars["result"] = sv
		}
	}
	if rn, ok := blk.Flags["returns"]; ok {
		for i, n := range strings.Fields(strings.ReplaceAll(rn, ",", " ")) {
			if i < len(rts) && n != "_" {
				post.vars[n] = SVal{T: rts[i], Typ: rs.At(i).Type()}
			}
		}
	}
	for _, cl := range blk.ClausesOf("ensures") {
		// postconditions about the callee's own call events are proved inside the callee; they
		// say nothing about the caller's path and must not be assumed here
		if mentionsEvents(cl.Expr, fv.eng) {
			continue
		}
		// ... and so are postconditions about the callee's ghost variables (its bookkeeping of
		// its own events)
		if mentionsGhostVar(cl.Text, blk) {
			continue
		}
		st.assume(fv.evalBool(post, cl.Expr))
	}
	// memory the callee lends to the caller: the caller must not write through it
	for _, cl := range blk.ClausesOf("borrowed") {
		v := post.eval(cl.Expr)
		if sl, ok := types.Unalias(v.Typ).Underlying().(*types.Slice); ok && v.T != nil && v.T.Sort == c.SSlice {
			k, _ := fv.elemsKey(sl.Elem())
			st.borrowed = append(append([]borrowedMem(nil), st.borrowed...), borrowedMem{base: Field(v.T, 0), off: Field(v.T, 1), ln: Field(v.T, 2), what: short + ": " + cl.Text, key: k})
		}
	}
	// copy-out of boxed interior pointers
	for _, b := range boxes {
		fv.store(st, b.orig, fv.load(st, b.tmp))
	}
	fv.recordEventT(st, short, ats, rts, ins)
	fv.typeLastEvent(st, sig, len(ats))
	return r
}

type boxedArg struct {
	orig, tmp *Loc
}

// pureArgVal: the argument of a pure function. Pointers are read through (the
// function depends on the pointee), slices are abstracted by their contents.
func (fv *FuncVer) pureArgVal(st *State, a Val, t *Term, names []pname, i int) []*Term {
	if i < len(names) && names[i].typ != nil {
		if pt, ok := types.Unalias(names[i].typ).Underlying().(*types.Pointer); ok {
			switch pt.Elem().Underlying().(type) {
			case *types.Struct, *types.Array, *types.Basic:
				l := fv.locOf(a, pt.Elem())
				if v, ok := fv.load(st, l).(*Term); ok {
					return []*Term{v}
				}
			}
		}
	}
	return fv.pureArg(st, t, names, i)
}

func (fv *FuncVer) argTerm(st *State, a Val) *Term {
	return fv.term(a)
}

// pureArg: slices passed to pure functions are abstracted by their contents.
func (fv *FuncVer) pureArg(st *State, a *Term, names []pname, i int) []*Term {
	if a.Sort == fv.ctx.SSlice && i < len(names) {
		if sl, ok := types.Unalias(names[i].typ).Underlying().(*types.Slice); ok {
			key, hs := fv.elemsKey(sl.Elem())
			arr := Select(fv.heap(st, key, hs), Field(a, 0))
			// a literal length: the value is exactly its elements
			if ln := resolve(Field(a, 2)); ln.IsLit && ln.Int.Int64() <= 64 {
				out := []*Term{fv.ctx.WLit(ln.Int.Int64())}
				for j := int64(0); j < ln.Int.Int64(); j++ {
					out = append(out, Select(arr, fv.ctx.WAdd(Field(a, 1), fv.ctx.WLit(j))))
				}
				return out
			}
			return []*Term{arr, Field(a, 1), Field(a, 2)}
		}
	}
	return []*Term{a}
}

type pname struct {
	name string
	typ  types.Type
}

func paramNames(sig *types.Signature, fn *ssa.Function, blk *Block) []pname {
	var out []pname
	if fn != nil {
		for _, p := range fn.Params {
			out = append(out, pname{p.Name(), p.Type()})
		}
		return out
	}
	// interface method: receiver is "self"
	out = append(out, pname{"self", nil})
	ps := sig.Params()
	for i := 0; i < ps.Len(); i++ {
		out = append(out, pname{ps.At(i).Name(), ps.At(i).Type()})
	}
	if pn, ok := blk.Flags["params"]; ok {
		for i, n := range strings.Fields(strings.ReplaceAll(pn, ",", " ")) {
			if i+1 < len(out) {
				out[i+1].name = n
			}
		}
	}
	return out
}

func (fv *FuncVer) callSiteAnchor(ins ssa.Instruction, short string) string {
	if ins == nil || !ins.Pos().IsValid() {
		return short
	}
	return fv.anchorAt(ins.Pos(), short)
}

// parseAssigns turns an assigns clause into heap keys.
//   nothing | * | ghost:<name> | heap:<GoType> | elems:<GoType> | map:<GoMapType> | global:<name>
func (fv *FuncVer) parseAssigns(s string, env *SpecEnv) []string {
	var out []string
	for _, it := range splitTop(s, ',') {
		it = strings.TrimSpace(it)
		switch {
		case it == "" || it == "nothing":
		case it == "*":
			out = append(out, "*")
		case strings.HasPrefix(it, "ghost:"), strings.HasPrefix(it, "global:"):
			out = append(out, it)
		case strings.HasPrefix(it, "heap:"):
			t := fv.eng.parseType(strings.TrimPrefix(it, "heap:"), env.pkg)
			k, _ := fv.heapKey(t)
			out = append(out, k)
		case strings.HasPrefix(it, "elems:"):
			t := fv.eng.parseType(strings.TrimPrefix(it, "elems:"), env.pkg)
			k, _ := fv.elemsKey(t)
			out = append(out, k)
		case strings.HasPrefix(it, "pointee:"):
			// the single heap object an interface- or pointer-typed parameter points to
			name := strings.TrimSpace(strings.TrimPrefix(it, "pointee:"))
			v, ok := env.vars[name]
			if !ok || v.T == nil {
				panic(specError("assigns pointee:" + name + ": unknown parameter"))
			}
			k := fv.pointeeKey(v)
			if k == "" {
				// dynamic type unknown at this call: over-approximate
				out = append(out, "*")
			} else {
				out = append(out, k)
			}
		case strings.HasPrefix(it, "map:"):
			t := fv.eng.parseType(strings.TrimPrefix(it, "map:"), env.pkg)
			mt := t.Underlying().(*types.Map)
			hk, vk, lk, _, _, _ := fv.mapHeaps(nil, mt)
			out = append(out, hk, vk, lk)
		default:
			panic(fmt.Sprintf("bad assigns item %q", it))
		}
	}
	return out
}

func (fv *FuncVer) sortOfHeapKey(k string) *Sort {
	return fv.heapSorts[k]
}


// paramOf: the function parameter a value denotes (directly, or through the
// load of its spill slot in NaiveForm).
func paramOf(v ssa.Value) *ssa.Parameter {
	switch x := v.(type) {
	case *ssa.Parameter:
		return x
	case *ssa.UnOp:
		if a, ok := x.X.(*ssa.Alloc); ok && x.Op == token.MUL {
			for _, p := range a.Parent().Params {
				if p.Name() == a.Comment && p.Pos() == a.Pos() {
					// the spill slot must not be reassigned
					n := 0
					for _, r := range *a.Referrers() {
						if s, ok := r.(*ssa.Store); ok && s.Addr == a {
							n++
						}
					}
					if n == 1 {
						return p
					}
				}
			}
		}
	}
	return nil
}


type pointee struct {
	key string // heap key
	ref *Term
	typ types.Type
}

// pointeeKey registers the heap object v points to (v: a pointer, or an interface made from a pointer).
func (fv *FuncVer) pointeeKey(v SVal) string {
	var et types.Type
	var ref *Term
	if v.Typ != nil {
		if pt, ok := types.Unalias(v.Typ).Underlying().(*types.Pointer); ok {
			et, ref = pt.Elem(), v.T
		}
	}
	if et == nil {
		r := resolve(v.T)
		if t, ok := fv.ifaceTypes[r.Op]; ok && len(r.Args) == 1 {
			if pt, ok := types.Unalias(t).Underlying().(*types.Pointer); ok {
				et, ref = pt.Elem(), r.Args[0]
			}
		}
	}
	if et == nil {
		return ""
	}
	hk, _ := fv.heapKey(et)
	id := fmt.Sprintf("pointee|%s|%s", hk, ref.String())
	if fv.pointees == nil {
		fv.pointees = map[string]pointee{}
	}
	fv.pointees[id] = pointee{hk, ref, et}
	return id
}


var eventBuiltins = map[string]bool{"called": true, "calledOK": true, "mayHaveCalled": true, "callarg": true, "callres": true, "ncalls": true, "calledBefore": true}

// mentionsEvents: does the expression (after expanding predicates) talk about call events?
func mentionsEvents(e *SExpr, eng *Engine) bool {
	if e == nil {
		return false
	}
	if e.Op == "call" && len(e.Args) > 0 && e.Args[0].Op == "ident" {
		if eventBuiltins[e.Args[0].Name] {
			return true
		}
		if p, ok := eng.preds[e.Args[0].Name]; ok && mentionsEvents(p.Body, eng) {
			return true
		}
	}
	for _, a := range e.Args {
		if mentionsEvents(a, eng) {
			return true
		}
	}
	for _, a := range e.Pats {
		if mentionsEvents(a, eng) {
			return true
		}
	}
	return false
}

// entryParamOf: the name of the function-typed parameter of the function under verification whose
// (symbolic) entry value is the given callee.
func (fv *FuncVer) entryParamOf(callee Val) string {
	t, ok := callee.(*Term)
	if !ok {
		return ""
	}
	for _, p := range fv.fn.Params {
		if _, isFn := p.Type().Underlying().(*types.Signature); !isFn {
			continue
		}
		if ev, ok := fv.entryVars[p.Name()]; ok && ev.T != nil && sameTerm(ev.T, t) {
			return p.Name()
		}
	}
	return ""
}

// mentionsGhostVar: the clause text names one of the block's ghost variables (as a word).
func mentionsGhostVar(text string, blk *Block) bool {
	for _, gv := range blk.ClausesOf("ghostvar") {
		name := gv.Var
		if name == "" {
			if f := strings.Fields(gv.Text); len(f) > 0 {
				name = f[0]
			}
		}
		if name == "" {
			continue
		}
		for i := 0; i+len(name) <= len(text); i++ {
			if text[i:i+len(name)] != name {
				continue
			}
			before := i == 0 || !isWordByte(text[i-1])
			after := i+len(name) == len(text) || !isWordByte(text[i+len(name)])
			if before && after {
				return true
			}
		}
	}
	return false
}

func isWordByte(b byte) bool {
	return b == '_' || (b >= '0' && b <= '9') || (b >= 'a' && b <= 'z') || (b >= 'A' && b <= 'Z')
}
