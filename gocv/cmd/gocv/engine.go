package main

import (
	"fmt"
	"go/ast"
	"go/token"
	"go/types"
	"os"
	"path/filepath"
	"regexp"
	"sort"
	"strings"

	"golang.org/x/tools/go/ast/astutil"
	"golang.org/x/tools/go/packages"
	"golang.org/x/tools/go/ssa"
	"golang.org/x/tools/go/ssa/ssautil"
)

const modulePath = "go.sia.tech/coreutils"

type Engine struct {
	missing []string // contracts whose function is gone
	repo      string
	fset      *token.FileSet
	pkgs      []*packages.Package
	allPkgs   map[string]*packages.Package
	prog      *ssa.Program
	funcs     map[string]*ssa.Function
	blocks    map[string]*Block // by resolved function name
	ifaces    map[string]*Block
	specFuncs map[string]*Block
	preds     map[string]*Block
	ghosts    map[string]*Block
	axioms    []*Block
	blockPkg  map[*Block]*types.Package
	allBlocks []*Block
	loopCache map[*ssa.Function][]*astLoop
	files     map[string]*ast.File
	src       map[string][]byte
	byName    map[string]*types.Package
	typeCache map[string]types.Type
	immutable map[string]bool
	immutableSan map[string]bool // sanitized full names of immutable globals
	aliases      map[string]map[string]*types.Package // package path -> import alias -> package
	callNames    map[string]bool
}

func loadEngine(repo string, patterns []string) (*Engine, error) {
	e := &Engine{repo: repo, funcs: map[string]*ssa.Function{}, blocks: map[string]*Block{}, ifaces: map[string]*Block{},
		specFuncs: map[string]*Block{}, preds: map[string]*Block{}, ghosts: map[string]*Block{}, blockPkg: map[*Block]*types.Package{},
		loopCache: map[*ssa.Function][]*astLoop{}, files: map[string]*ast.File{}, src: map[string][]byte{}, byName: map[string]*types.Package{},
		allPkgs: map[string]*packages.Package{}, typeCache: map[string]types.Type{}, immutable: map[string]bool{}, immutableSan: map[string]bool{}, aliases: map[string]map[string]*types.Package{}}
	cfg := &packages.Config{Mode: packages.LoadAllSyntax, Dir: repo, BuildFlags: []string{"-tags=verif"}}
	pkgs, err := packages.Load(cfg, patterns...)
	if err != nil {
		return nil, err
	}
	nerr := 0
	packages.Visit(pkgs, nil, func(p *packages.Package) {
		for _, er := range p.Errors {
			fmt.Fprintln(os.Stderr, "load error:", er)
			nerr++
		}
		e.allPkgs[p.PkgPath] = p
		if p.Types != nil {
			if _, ok := e.byName[p.Types.Name()]; !ok || strings.HasPrefix(p.PkgPath, "go.sia.tech/") {
				e.byName[p.Types.Name()] = p.Types
			}
		}
	})
	if nerr > 0 {
		return nil, fmt.Errorf("%d package load errors", nerr)
	}
	e.pkgs = pkgs
	e.fset = pkgs[0].Fset
	prog, _ := ssautil.AllPackages(pkgs, ssa.NaiveForm|ssa.GlobalDebug|ssa.InstantiateGenerics)
	prog.Build()
	e.prog = prog
	for fn := range ssautil.AllFunctions(prog) {
		e.funcs[fn.String()] = fn
	}
	for _, p := range e.allPkgs {
		for _, f := range p.Syntax {
			name := e.fset.Position(f.Pos()).Filename
			e.files[name] = f
		}
	}
	// import aliases as written in each package's source files
	for _, p := range e.allPkgs {
		if !strings.HasPrefix(p.PkgPath, modulePath) {
			continue
		}
		am := map[string]*types.Package{}
		for _, f := range p.Syntax {
			for _, im := range f.Imports {
				path := strings.Trim(im.Path.Value, "\"")
				ip := e.allPkgs[path]
				if ip == nil || ip.Types == nil {
					continue
				}
				name := ip.Types.Name()
				if im.Name != nil {
					name = im.Name.Name
				}
				if name != "_" && name != "." {
					am[name] = ip.Types
				}
			}
		}
		e.aliases[p.PkgPath] = am
	}
	// contract files of every loaded repo package
	for _, p := range e.allPkgs {
		if !strings.HasPrefix(p.PkgPath, modulePath) {
			continue
		}
		dir := strings.TrimPrefix(strings.TrimPrefix(p.PkgPath, modulePath), "/")
		for _, path := range findSpecFiles(repo, []string{dir}) {
			blocks, err := parseSpecFile(path)
			if err != nil {
				return nil, err
			}
			for _, b := range blocks {
				e.blockPkg[b] = p.Types
				e.allBlocks = append(e.allBlocks, b)
				if err := e.register(b, p.PkgPath); err != nil {
					return nil, fmt.Errorf("%s:%d: %v", b.File, b.Line, err)
				}
			}
		}
	}
	return e, nil
}

func (e *Engine) register(b *Block, pkgPath string) error {
	switch b.Kind {
	case "func", "extern", "lemma":
		name := e.resolveFuncName(b.Name, pkgPath)
		if _, ok := e.funcs[name]; !ok {
			if b.Kind == "extern" {
				return fmt.Errorf("function %q (resolved %q) not found", b.Name, name)
			}
			// a function of the repository that a contract names is gone (removed or renamed by
			// a change): not a reason to stop -- its listed obligations are reported as no longer
			// generated and whatever relied on its contract fails on its own
			e.missing = append(e.missing, fmt.Sprintf("%s:%d: function %q under contract no longer exists", b.File, b.Line, b.Name))
			return nil
		}
		if old, dup := e.blocks[name]; dup {
			return fmt.Errorf("duplicate contract for %s (also at %s:%d)", name, old.File, old.Line)
		}
		e.blocks[name] = b
		b.Flags["resolved"] = name
	case "iface":
		name := e.resolveIfaceName(b.Name, pkgPath)
		e.ifaces[name] = b
		b.Flags["resolved"] = name
	case "spec":
		e.specFuncs[b.Name] = b
	case "pred":
		e.preds[b.Name] = b
	case "ghost":
		e.ghosts[b.Name] = b
	case "axiom":
		e.axioms = append(e.axioms, b)
	case "data":
		for _, n := range strings.Fields(b.Name) {
			e.immutable[pkgPath+"."+n] = true
			e.immutableSan[sanitize(pkgPath+"."+n)] = true
		}
	}
	return nil
}

var recvRe = regexp.MustCompile(`^\((\*?)([A-Za-z0-9_./]+)\)\.(.+)$`)

func (e *Engine) qualify(typeName, pkgPath string) string {
	if i := strings.LastIndex(typeName, "."); i >= 0 {
		p, n := typeName[:i], typeName[i+1:]
		if strings.Contains(p, "/") || e.allPkgs[p] != nil {
			return p + "." + n
		}
		if am, ok := e.aliases[pkgPath]; ok {
			if tp, ok := am[p]; ok {
				return tp.Path() + "." + n
			}
		}
		if tp, ok := e.byName[p]; ok {
			return tp.Path() + "." + n
		}
		return typeName
	}
	return pkgPath + "." + typeName
}

func (e *Engine) resolveFuncName(name, pkgPath string) string {
	if m := recvRe.FindStringSubmatch(name); m != nil {
		return "(" + m[1] + e.qualify(m[2], pkgPath) + ")." + m[3]
	}
	return e.qualify(name, pkgPath)
}

func (e *Engine) resolveIfaceName(name, pkgPath string) string {
	// Iface.Method or pkg.Iface.Method
	i := strings.LastIndex(name, ".")
	if i < 0 {
		return name
	}
	it, m := name[:i], name[i+1:]
	if it == "error" {
		return "error." + m
	}
	return e.qualify(it, pkgPath) + "." + m
}

func (e *Engine) funcBlock(fn *ssa.Function) *Block {
	if fn == nil {
		return nil
	}
	if b, ok := e.blocks[fn.String()]; ok {
		return b
	}
	if o := fn.Origin(); o != nil {
		if b, ok := e.blocks[o.String()]; ok {
			return b
		}
	}
	return nil
}

func (e *Engine) ifaceBlock(it types.Type, m *types.Func) *Block {
	if b, ok := e.ifaces[ifaceMethodName(it, m)]; ok {
		return b
	}
	// method declared in an embedded interface
	if sig, ok := m.Type().(*types.Signature); ok && sig.Recv() != nil {
		if b, ok := e.ifaces[types.TypeString(types.Unalias(sig.Recv().Type()), nil)+"."+m.Name()]; ok {
			return b
		}
	}
	return nil
}

func (e *Engine) pkgOfBlock(b *Block) *types.Package { return e.blockPkg[b] }

func (e *Engine) pkgByName(name string) *types.Package { return e.byName[name] }

// importedAs: the package that source files of pkg import under this name.
func (e *Engine) importedAs(pkg *types.Package, name string) *types.Package {
	if pkg == nil {
		return nil
	}
	return e.aliases[pkg.Path()][name]
}

func (e *Engine) shortFuncName(fn *ssa.Function) string {
	s := fn.String()
	s = strings.ReplaceAll(s, modulePath+"/", "")
	s = strings.ReplaceAll(s, "go.sia.tech/core/", "core/")
	return s
}

// parseType evaluates a Go type expression in the scope of pkg (plus every
// package known to the program by its name).
func (e *Engine) parseType(text string, pkg *types.Package) types.Type {
	text = strings.TrimSpace(text)
	if text == "ref" {
		return types.Typ[types.UnsafePointer] // ghost: any reference value
	}
	key := text
	if pkg != nil {
		key = pkg.Path() + "|" + text
	}
	if t, ok := e.typeCache[key]; ok {
		return t
	}
	// build a scope with imports by name
	scope := types.NewScope(types.Universe, token.NoPos, token.NoPos, "spec")
	if pkg != nil {
		for name, p := range e.aliases[pkg.Path()] {
			scope.Insert(types.NewPkgName(token.NoPos, pkg, name, p))
		}
	}
	for name, p := range e.byName {
		if scope.Lookup(name) == nil {
			scope.Insert(types.NewPkgName(token.NoPos, pkg, name, p))
		}
	}
	var tpkg *types.Package
	if pkg != nil {
		tpkg = types.NewPackage(pkg.Path(), pkg.Name())
		for _, n := range pkg.Scope().Names() {
			scope.Insert(pkg.Scope().Lookup(n))
		}
	}
	_ = tpkg
	tv, err := evalTypeInScope(e.fset, scope, pkg, text)
	if err != nil {
		panic(specError(fmt.Sprintf("cannot resolve type %q: %v", text, err)))
	}
	e.typeCache[key] = tv
	return tv
}

func (e *Engine) innermostScope(pkg *types.Package, pos token.Pos) *types.Scope {
	if pkg == nil {
		return nil
	}
	return pkg.Scope().Innermost(pos)
}

// exprTextAt returns the source text of the smallest interesting expression at pos.
func (e *Engine) exprTextAt(pos token.Pos) string {
	p := e.fset.Position(pos)
	f := e.files[p.Filename]
	if f == nil {
		return ""
	}
	path, _ := astutil.PathEnclosingInterval(f, pos, pos)
	for _, n := range path {
		switch x := n.(type) {
		case *ast.IndexExpr, *ast.SliceExpr, *ast.CallExpr, *ast.StarExpr, *ast.SelectorExpr, *ast.TypeAssertExpr, *ast.BinaryExpr, *ast.UnaryExpr, *ast.CompositeLit:
			return e.nodeText(x)
		case *ast.AssignStmt:
			return e.nodeText(x)
		case *ast.RangeStmt:
			return "range " + e.nodeText(x.X)
		case *ast.IncDecStmt:
			return e.nodeText(x)
		case ast.Stmt:
			s := e.nodeText(x)
			if i := strings.Index(s, "\n"); i >= 0 {
				s = s[:i]
			}
			return s
		}
	}
	return ""
}

func (e *Engine) nodeText(n ast.Node) string {
	p, q := e.fset.Position(n.Pos()), e.fset.Position(n.End())
	src, ok := e.src[p.Filename]
	if !ok {
		src, _ = os.ReadFile(p.Filename)
		e.src[p.Filename] = src
	}
	if p.Offset < 0 || q.Offset > len(src) || p.Offset > q.Offset {
		return ""
	}
	s := string(src[p.Offset:q.Offset])
	s = strings.Join(strings.Fields(s), " ")
	if len(s) > 90 {
		s = s[:90] + "…"
	}
	return s
}

// immutableGlobal: package-level data the repository never reassigns.
func (e *Engine) immutableGlobal(name string) bool {
	if strings.HasPrefix(name, "ghost:") {
		return false
	}
	return e.immutable[name]
}

var purePkgs = map[string]bool{
	"fmt": true, "errors": true, "strings": true, "bytes": true, "math": true, "math/bits": true, "strconv": true,
	"go.uber.org/zap": true, "go.uber.org/zap/zapcore": true, "time": true, "encoding/binary": true, "unicode": true, "unicode/utf8": true,
	"encoding/hex": true, "slices": false, "sort": false, "context": true, "net": true,
}

// assumedPure: calls that have no effect on contract-visible state (assumption A7 and std-lib value functions).
func (e *Engine) assumedPure(fn *ssa.Function) bool {
	if fn.Pkg == nil {
		if fn.Signature.Recv() != nil {
			if n, ok := derefNamed(fn.Signature.Recv().Type()); ok && n.Obj().Pkg() != nil {
				return purePkgs[n.Obj().Pkg().Path()]
			}
		}
		return false
	}
	return purePkgs[fn.Pkg.Pkg.Path()]
}

func derefNamed(t types.Type) (*types.Named, bool) {
	if p, ok := types.Unalias(t).(*types.Pointer); ok {
		t = p.Elem()
	}
	n, ok := types.Unalias(t).(*types.Named)
	return n, ok
}

// functionsForProp lists the repo functions whose contract block carries prop.
func (e *Engine) functionsForProp(prop string) []*Block {
	var out []*Block
	for _, b := range e.allBlocks {
		if b.Kind != "func" && b.Kind != "lemma" {
			continue
		}
		for _, p := range b.Props {
			if p == prop {
				out = append(out, b)
			}
		}
	}
	sort.SliceStable(out, func(i, j int) bool { return out[i].Flags["resolved"] < out[j].Flags["resolved"] })
	return out
}

func repoRel(repo, p string) string {
	r, err := filepath.Rel(repo, p)
	if err != nil {
		return p
	}
	return r
}


// knownCallName: does any function / interface method / callback name end in this name
// (the matching rule of called(), callarg(), ...)?
func (e *Engine) knownCallName(name string) bool {
	if e.callNames == nil {
		e.callNames = map[string]bool{}
	}
	if v, ok := e.callNames[name]; ok {
		return v
	}
	ok := name == "funcvalue" || name == "deferred" || strings.HasPrefix(name, "param:") || name == "chan.send" || name == "chan.recv" || name == "chan.close" || name == "select" || name == "go" || name == "recover.direct" || name == "recover.indirect"
	match := func(full string) bool {
		return full == name || strings.HasSuffix(full, "."+name) || strings.HasSuffix(full, ")."+name)
	}
	if !ok {
		for full, fn := range e.funcs {
			if match(full) || match(e.shortFuncName(fn)) {
				ok = true
				break
			}
		}
	}
	if !ok {
		// interface methods: <pkgpath>.<Iface>.<Method>
		for _, p := range e.allPkgs {
			if p.Types == nil || ok {
				continue
			}
			sc := p.Types.Scope()
			for _, n := range sc.Names() {
				tn, isT := sc.Lookup(n).(*types.TypeName)
				if !isT {
					continue
				}
				it, isI := tn.Type().Underlying().(*types.Interface)
				if !isI {
					continue
				}
				for i := 0; i < it.NumMethods(); i++ {
					if match(p.PkgPath + "." + n + "." + it.Method(i).Name()) {
						ok = true
					}
				}
			}
		}
	}
	e.callNames[name] = ok
	return ok
}
