package main

import (
	"bytes"
	"context"
	"crypto/sha256"
	"encoding/hex"
	"fmt"
	"os"
	"os/exec"
	"path/filepath"
	"strings"
	"sync"
	"time"
)

type solverSpec struct {
	name string
	cmd  []string
}

func solverList() []solverSpec {
	return []solverSpec{
		{"z3-5.1.0", []string{"z3-new", "-smt2", "-in"}},
		{"z3-5.1.0-ematch", []string{"z3-new", "-smt2", "-in", "smt.mbqi=false", "smt.auto_config=false"}},
		{"z3-4.8.12", []string{"z3", "-smt2", "-in"}},
		{"cvc5-1.0", []string{"cvc5", "--lang=smt2", "--produce-models", "-"}},
	}
}

// smtGround: the query with triggered quantifiers instantiated by the engine and
// every quantified assumption dropped ("" when the query has no triggered quantifier).
// extGround: the extended instantiation heuristics are on (goal-directed instances at the goal's
// Skolem constants and their neighbours, index matching modulo linear arithmetic, negative
// universals named, conjunctions split, a second pass after witness expansion). The classic text
// is always raced beside the extended one: the extended text can be much larger.
var extGround bool

func (fv *FuncVer) smtGround(q *Query, ext bool) string {
	extGround = ext
	defer func() { extGround = false }()
	// existentials in positive positions of the assumptions get named witnesses (Skolem
	// functions of the enclosing universal variables): validity-preserving, and it lets the
	// engine offer those witnesses to an existential goal
	// conjunctions are split first: a quantified conjunct (e.g. the hypothesis of a goal that was an
	// implication) must be a formula of its own to be instantiated
	var flat []*Term
	var flatten func(a *Term)
	flatten = func(a *Term) {
		if ext && a.Op == "and" && a.Q == nil && hasQuant(a) {
			for _, x := range a.Args {
				flatten(x)
			}
			return
		}
		flat = append(flat, a)
	}
	for _, a := range q.Assumptions {
		flatten(a)
	}
	assumptions := make([]*Term, len(flat))
	for i, a := range flat {
		assumptions[i] = a
		if (ext && hasQuant(a)) || hasExists(a) {
			assumptions[i] = fv.skolemEx(a, nil, fmt.Sprintf("w%d", i))
		}
	}
	goal := q.Goal
	// equal slices (e.g. "the revert update carries the diffs of the apply update"): rewrite one
	// into the other so that matching, which is syntactic here, sees through the equation
	assumptions, goal = propagateSliceEqs(fv.ctx, assumptions, goal)
	insts := instantiate(assumptions, goal, 3, 600)
	if len(insts) == 0 {
		return ""
	}
	// (forall d . P) ==> Q, where the antecedent is literally one of the universal assumptions
	// (typically the hypothesis of a frame condition): keep Q
	univ := map[string]bool{}
	for _, a := range assumptions {
		if a.Q != nil && a.Q.Forall {
			univ[quantKey(a)] = true
		}
	}
	var as []*Term
	for _, a := range append(append([]*Term{}, assumptions...), insts...) {
		a = dischargeAntecedents(a, univ)
		if !hasQuant(a) {
			as = append(as, a)
		}
	}
	if hasExists(goal) {
		// an existential goal is replaced by the disjunction of its instances at the candidate
		// witnesses found among the ground terms (a stronger goal: proving it proves the original)
		pool := groundSubterms(append(append([]*Term{}, as...), goal))
		goal = witnessGoal(goal, pool)
		// the candidate witnesses are new ground terms (an element read at witness - 1): one
		// more instantiation pass with them in view
		have := map[string]bool{}
		for _, a := range as {
			have[a.String()] = true
		}
		var more []*Term
		if ext {
			more = instantiate(assumptions, goal, 2, 600)
		}
		for _, a := range more {
			a = dischargeAntecedents(a, univ)
			if hasQuant(a) {
				continue
			}
			if k := a.String(); !have[k] {
				have[k] = true
				as = append(as, a)
			}
		}
	}
	return fv.smtText(&Query{Assumptions: as, Goal: goal}, true)
}

// quantKey: a universal formula up to its triggers.
func quantKey(t *Term) string {
	var sb strings.Builder
	for _, v := range t.Q.Vars {
		sb.WriteString(v.Op + ":" + v.Sort.Name + ";")
	}
	sb.WriteString(t.Q.Body.String())
	return sb.String()
}

func dischargeAntecedents(t *Term, univ map[string]bool) *Term {
	switch {
	case t.Op == "=>" && len(t.Args) == 2:
		a := t.Args[0]
		if a.Q != nil && a.Q.Forall && univ[quantKey(a)] {
			return dischargeAntecedents(t.Args[1], univ)
		}
		nb := dischargeAntecedents(t.Args[1], univ)
		if nb != t.Args[1] {
			return Implies(a, nb)
		}
	case t.Op == "and":
		args := make([]*Term, len(t.Args))
		changed := false
		for i, x := range t.Args {
			args[i] = dischargeAntecedents(x, univ)
			changed = changed || args[i] != x
		}
		if changed {
			return And(args...)
		}
	}
	return t
}

// propagateSliceEqs rewrites x into y for every assumed equation x == y between two ground,
// non-literal terms of the slice sort (x the larger term).
func propagateSliceEqs(c *Ctx, as []*Term, goal *Term) ([]*Term, *Term) {
	type eq struct{ from, to *Term }
	var eqs []eq
	for _, a := range as {
		if a.Op == "=" && len(a.Args) == 2 && a.Args[0].Sort == c.SSlice && !hasQuant(a) {
			x, y := a.Args[0], a.Args[1]
			if x.IsLit || y.IsLit || resolve(x).Op == c.SSlice.DT.Ctor || resolve(y).Op == c.SSlice.DT.Ctor {
				continue
			}
			if len(x.String()) < len(y.String()) {
				x, y = y, x
			}
			if strings.Contains(y.String(), x.String()) {
				continue
			}
			eqs = append(eqs, eq{x, y})
		}
	}
	if len(eqs) == 0 {
		return as, goal
	}
	out := make([]*Term, len(as))
	copy(out, as)
	for _, e := range eqs {
		key := e.from.String()
		memo := map[*Term]*Term{}
		for i, a := range out {
			if a.Op == "=" && len(a.Args) == 2 && (a.Args[0].String() == key || a.Args[1].String() == key) {
				continue // keep the equation itself
			}
			out[i] = replaceByString(a, key, e.to, memo)
		}
		goal = replaceByString(goal, key, e.to, memo)
	}
	return out, goal
}

func replaceByString(t *Term, key string, to *Term, memo map[*Term]*Term) *Term {
	if t == nil {
		return nil
	}
	if r, ok := memo[t]; ok {
		return r
	}
	if t.Q == nil && t.Sort == to.Sort && t.String() == key {
		memo[t] = to
		return to
	}
	if t.Q != nil {
		nb := replaceByString(t.Q.Body, key, to, memo)
		var np []*Term
		changed := nb != t.Q.Body
		for _, p := range t.Q.Pats {
			x := replaceByString(p, key, to, memo)
			changed = changed || x != p
			np = append(np, x)
		}
		r := t
		if changed {
			r = &Term{Sort: SBool, Q: &Quant{Forall: t.Q.Forall, Vars: t.Q.Vars, Body: nb, Pats: np}}
		}
		memo[t] = r
		return r
	}
	if len(t.Args) == 0 {
		if t.Sym != nil && t.Sym.Def != nil {
			// a named definition: look inside
			nd := replaceByString(t.Sym.Def, key, to, memo)
			if nd != t.Sym.Def {
				memo[t] = nd
				return nd
			}
		}
		memo[t] = t
		return t
	}
	args := make([]*Term, len(t.Args))
	changed := false
	for i, a := range t.Args {
		args[i] = replaceByString(a, key, to, memo)
		changed = changed || args[i] != a
	}
	r := t
	if changed {
		r = &Term{Op: t.Op, Args: args, Sort: t.Sort, Sym: t.Sym}
		if t.Op == "const-array" {
			r = ConstArray(t.Sort, args[0])
		}
	}
	memo[t] = r
	return r
}

func hasExists(t *Term) bool {
	if t == nil {
		return false
	}
	if t.Q != nil {
		if !t.Q.Forall {
			return true
		}
		return hasExists(t.Q.Body)
	}
	for _, a := range t.Args {
		if hasExists(a) {
			return true
		}
	}
	return false
}

// skolemEx replaces existential quantifiers in positive positions (conjuncts, consequents of
// implications, bodies of universal quantifiers) by applications of fresh function symbols to
// the universally bound variables in scope. Other positions are left alone.
func (fv *FuncVer) skolemEx(t *Term, univ []*Term, tag string) *Term {
	switch {
	case t.Q != nil && t.Q.Forall:
		nb := fv.skolemEx(t.Q.Body, append(append([]*Term{}, univ...), t.Q.Vars...), tag)
		if nb == t.Q.Body {
			return t
		}
		return &Term{Sort: SBool, Q: &Quant{Forall: true, Vars: t.Q.Vars, Body: nb, Pats: t.Q.Pats}}
	case t.Q != nil && !t.Q.Forall:
		bind := map[*Term]*Term{}
		for i, v := range t.Q.Vars {
			bind[v] = fv.ctx.Func(fmt.Sprintf("sk_%s_%s_%d_%d", tag, v.Op, len(univ), i), v.Sort, univ...)
		}
		return fv.skolemEx(substTerm(t.Q.Body, bind, map[*Term]*Term{}), univ, tag+"x")
	case t.Op == "and":
		args := make([]*Term, len(t.Args))
		changed := false
		for i, a := range t.Args {
			args[i] = fv.skolemEx(a, univ, fmt.Sprintf("%s_%d", tag, i))
			changed = changed || args[i] != a
		}
		if !changed {
			return t
		}
		return And(args...)
	case t.Op == "=>" && len(t.Args) == 2:
		nb := fv.skolemEx(t.Args[1], univ, tag+"c")
		na := t.Args[0]
		if extGround {
			na = fv.skolemNeg(t.Args[0], univ, tag+"a")
		}
		if nb == t.Args[1] && na == t.Args[0] {
			return t
		}
		return Implies(na, nb)
	}
	return t
}

// skolemNeg: universal quantifiers in negative positions (conjuncts / disjuncts of an
// antecedent) are existentials of the whole formula: (forall k. P(k)) ==> Q is
// exists k. (P(k) ==> Q). They get Skolem terms like the positive existentials.
func (fv *FuncVer) skolemNeg(t *Term, univ []*Term, tag string) *Term {
	switch {
	case t.Q != nil && t.Q.Forall:
		bind := map[*Term]*Term{}
		for i, v := range t.Q.Vars {
			bind[v] = fv.ctx.Func(fmt.Sprintf("sk_%s_%s_%d_%d", tag, v.Op, len(univ), i), v.Sort, univ...)
		}
		return fv.skolemNeg(substTerm(t.Q.Body, bind, map[*Term]*Term{}), univ, tag+"x")
	case t.Op == "and" || t.Op == "or":
		args := make([]*Term, len(t.Args))
		changed := false
		for i, a := range t.Args {
			args[i] = fv.skolemNeg(a, univ, fmt.Sprintf("%s_%d", tag, i))
			changed = changed || args[i] != a
		}
		if !changed {
			return t
		}
		if t.Op == "and" {
			return And(args...)
		}
		return Or(args...)
	}
	return t
}

// witnessGoal instantiates the existential quantifiers in positive positions of a goal at
// every ground term that can stand for the bound variable in one of the body's applications.
func witnessGoal(g *Term, pool []*Term) *Term {
	switch {
	case g.Q != nil && !g.Q.Forall:
		var pats []*Term
		collectApps(g.Q.Body, g.Q.Vars, &pats)
		seen := map[string]bool{}
		var alts []*Term
		for _, p := range pats {
			for _, gt := range pool {
				bind := map[*Term]*Term{}
				if !matchTerm(p, gt, g.Q.Vars, bind) || len(bind) != len(g.Q.Vars) {
					continue
				}
				inst := substTerm(g.Q.Body, bind, map[*Term]*Term{})
				k := inst.String()
				if seen[k] || len(alts) >= 24 {
					continue
				}
				seen[k] = true
				alts = append(alts, witnessGoal(inst, pool))
			}
		}
		// for a single integer variable also try the "interesting" integers of the query: the
		// witnesses named by the assumptions (Skolem applications), slice lengths, loop indices
		if len(g.Q.Vars) == 1 && g.Q.Vars[0].Sort == SInt {
			v := g.Q.Vars[0]
			for _, gt := range pool {
				if gt.Sort != SInt || (!extGround && len(alts) >= 40) || len(alts) >= 60 {
					continue
				}
				ok := strings.HasPrefix(gt.Op, "sk_") || gt.Op == "sl-len" || strings.HasPrefix(gt.Op, "r_t") || strings.HasPrefix(gt.Op, "lv_")
				if !ok && gt.Op == "select" && len(gt.Args) == 2 && (strings.HasPrefix(resolve(gt.Args[0]).Op, "perm")) {
					ok = true
				}
				if !ok {
					continue
				}
				cands := []*Term{gt}
				if extGround && strings.HasPrefix(gt.Op, "sk_") {
					// ... and the positions next to a named witness (an element moved by one)
					cands = append(cands, ISub(gt, IntLit(1)), IAdd(gt, IntLit(1)))
				}
				for _, w := range cands {
					inst := substTerm(g.Q.Body, map[*Term]*Term{v: w}, map[*Term]*Term{})
					k := inst.String()
					if seen[k] {
						continue
					}
					seen[k] = true
					alts = append(alts, witnessGoal(inst, pool))
				}
			}
		}
		if len(alts) == 0 {
			return g
		}
		return Or(alts...)
	case g.Op == "and":
		args := make([]*Term, len(g.Args))
		for i, a := range g.Args {
			args[i] = witnessGoal(a, pool)
		}
		return And(args...)
	case g.Op == "=>" && len(g.Args) == 2:
		return Implies(g.Args[0], witnessGoal(g.Args[1], pool))
	}
	return g
}

// collectApps gathers the applications (array reads, uninterpreted functions) in t that mention
// all of vars and contain no quantifier; they serve as patterns for candidate witnesses.
func collectApps(t *Term, vars []*Term, out *[]*Term) bool {
	if t == nil || t.Q != nil {
		return false
	}
	for _, a := range t.Args {
		collectApps(a, vars, out)
	}
	if (t.Op == "select" || (t.Sym != nil && len(t.Args) > 0)) && mentionsAll(t, vars) && !hasQuant(t) {
		*out = append(*out, t)
	}
	return true
}

func mentionsAll(t *Term, vars []*Term) bool {
	for _, v := range vars {
		if !mentions(t, v) {
			return false
		}
	}
	return true
}

func mentions(t, v *Term) bool {
	if t == v {
		return true
	}
	if t == nil || t.Q != nil {
		return false
	}
	for _, a := range t.Args {
		if mentions(a, v) {
			return true
		}
	}
	return false
}

func (fv *FuncVer) smtText(q *Query, wantModel bool) string {
	c := fv.ctx
	goal := q.Goal
	all := append([]*Term{}, q.Assumptions...)
	all = append(all, goal)
	syms := collectSyms(all)
	used := map[*Sym]bool{}
	for _, s := range syms {
		used[s] = true
	}
	lits := c.StrLitAxioms(used)
	for _, ga := range fv.ghostAxioms {
		// only when the ghost constant occurs in the query
		for _, sy := range collectSyms([]*Term{ga}) {
			if strings.HasPrefix(sy.Name, "ghost0_") && used[sy] {
				lits = append(lits, ga)
				break
			}
		}
	}
	// literal axioms may mention str.len_
	syms = collectSyms(append(all, lits...))
	var sb strings.Builder
	if wantModel {
		sb.WriteString("(set-option :produce-models true)\n")
	}
	sb.WriteString("(set-logic ALL)\n")
	for _, s := range syms {
		sb.WriteString(s.Decl)
		sb.WriteByte('\n')
	}
	for _, a := range lits {
		fmt.Fprintf(&sb, "(assert %s)\n", a.String())
	}
	for _, a := range q.Assumptions {
		fmt.Fprintf(&sb, "(assert %s)\n", a.String())
	}
	fmt.Fprintf(&sb, "(assert (not %s))\n", goal.String())
	sb.WriteString("(check-sat)\n")
	if wantModel {
		sb.WriteString("(get-model)\n")
	}
	return sb.String()
}

type solveResult struct {
	groundSat   bool   // the instantiated, quantifier-free variant is satisfiable: a candidate counterexample
	groundModel string
	result string
	solver string
	ms     int
	model  string
	all    map[string]string
}

var (
	solveCache   = map[string]solveResult{}
	solveCacheMu sync.Mutex
)

func runSolver(ctx context.Context, sp solverSpec, text string, timeout time.Duration) (string, string, int) {
	cctx, cancel := context.WithTimeout(ctx, timeout)
	defer cancel()
	args := append([]string(nil), sp.cmd[1:]...)
	if strings.HasPrefix(sp.cmd[0], "z3") {
		// belt and braces: the solver stops by itself shortly after our own deadline and never
		// grows beyond a few GB (a solver that outlives a killed checker once held 24 GB for hours
		// and made every later run time out)
		args = append(args, fmt.Sprintf("-T:%d", int(timeout.Seconds())+5), "-memory:6000")
	}
	if strings.HasPrefix(sp.cmd[0], "cvc5") {
		args = append([]string{fmt.Sprintf("--tlimit=%d", (int(timeout.Seconds())+5)*1000)}, args...)
	}
	cmd := exec.CommandContext(cctx, sp.cmd[0], args...)
	cmd.Stdin = strings.NewReader(text)
	var out bytes.Buffer
	cmd.Stdout = &out
	cmd.Stderr = &out
	t0 := time.Now()
	err := cmd.Run()
	ms := int(time.Since(t0).Milliseconds())
	s := out.String()
	// warnings (e.g. "'if' cannot be used in patterns": the pattern is ignored) precede the verdict
	for strings.HasPrefix(s, "WARNING") {
		i := strings.Index(s, "\n")
		if i < 0 {
			break
		}
		s = s[i+1:]
	}
	first := strings.TrimSpace(strings.SplitN(s, "\n", 2)[0])
	switch first {
	case "sat", "unsat", "unknown":
		rest := ""
		if i := strings.Index(s, "\n"); i >= 0 {
			rest = s[i+1:]
		}
		return first, rest, ms
	}
	if cctx.Err() != nil {
		return "timeout", "", ms
	}
	_ = err
	return "error", trunc(s, 400), ms
}

// solve decides one query. tier: quick = primary solver first, race on unknown;
// thorough = all solvers, disagreement is an engine error.
// solve2: like solve, with an additional ground variant of the same query.
// `unsat` of either variant discharges the query; `sat` is only believed for the full text.
func solve2(text, ground, groundExt string, timeout time.Duration, thorough bool) solveResult {
	if ground == "" && groundExt != "" {
		ground, groundExt = groundExt, ""
	}
	if groundExt == ground {
		groundExt = ""
	}
	if ground == "" {
		return solve(text, timeout, thorough)
	}
	type one struct {
		name, r, model string
		ms             int
		full           bool
	}
	sps := solverList()
	ctx, cancel := context.WithCancel(context.Background())
	defer cancel()
	ch := make(chan one, 12)
	n := 0
	launch := func(sp solverSpec, t string, full bool, tag string) {
		n++
		go func() {
			r, m, ms := runSolver(ctx, sp, t, timeout)
			ch <- one{sp.name + tag, r, m, ms, full}
		}()
	}
	if text == "" {
		// only an instantiated text (second attempt with the extended heuristics)
		launch(sps[0], ground, false, "+instx")
		launch(sps[len(sps)-1], ground, false, "+instx")
		launch(sps[2], ground, false, "+instx")
	} else {
		launch(sps[0], text, true, "")
		launch(sps[0], ground, false, "+inst")
		launch(sps[len(sps)-1], ground, false, "+inst")
		if groundExt != "" {
			launch(sps[0], groundExt, false, "+instx")
			launch(sps[len(sps)-1], groundExt, false, "+instx")
		}
		// the two z3 generations differ widely on quantified goals: always race both
		launch(sps[2], text, true, "")
		launch(sps[1], text, true, "")
		if thorough {
			launch(sps[len(sps)-1], text, true, "")
		}
	}
	res := solveResult{result: "unknown", all: map[string]string{}}
	for i := 0; i < n; i++ {
		o := <-ch
		res.all[o.name] = o.r
		if o.r == "unsat" || (o.r == "sat" && o.full) {
			res.result, res.solver, res.ms, res.model = o.r, o.name, o.ms, o.model
			return res
		}
		if o.r == "sat" && !o.full {
			res.groundSat = true
			res.groundModel = o.model
		}
		if res.result == "unknown" && o.full && o.r == "timeout" {
			res.result = "timeout"
			res.ms = o.ms
		}
	}
	return res
}

func solve(text string, timeout time.Duration, thorough bool) solveResult {
	h := sha256.Sum256([]byte(text))
	key := hex.EncodeToString(h[:]) + fmt.Sprint(thorough)
	solveCacheMu.Lock()
	if r, ok := solveCache[key]; ok {
		solveCacheMu.Unlock()
		return r
	}
	solveCacheMu.Unlock()
	sps := solverList()
	res := solveResult{result: "unknown", all: map[string]string{}}
	if !thorough {
		r, model, ms := runSolver(context.Background(), sps[0], text, timeout/2+time.Second)
		res.all[sps[0].name] = r
		if r == "sat" || r == "unsat" {
			res = solveResult{result: r, solver: sps[0].name, ms: ms, model: model, all: res.all}
		} else {
			// race the remaining solvers
			res = race(sps[1:], text, timeout, res.all)
			if res.result != "sat" && res.result != "unsat" {
				res.result = r
				if r == "error" {
					res.result = "unknown"
				}
				res.ms = ms
			}
		}
	} else {
		type one struct {
			sp       solverSpec
			r, model string
			ms       int
		}
		ch := make(chan one, len(sps))
		ctx, cancel := context.WithCancel(context.Background())
		for _, sp := range sps {
			go func(sp solverSpec) {
				r, m, ms := runSolver(ctx, sp, text, timeout)
				ch <- one{sp, r, m, ms}
			}(sp)
		}
		// once one solver has a definitive answer the others get a grace period to (dis)agree
		var grace <-chan time.Time
		pending := len(sps)
	collect:
		for pending > 0 {
			select {
			case o := <-ch:
				pending--
				res.all[o.sp.name] = o.r
				if o.r == "sat" || o.r == "unsat" {
					if res.result == "sat" || res.result == "unsat" {
						if res.result != o.r {
							res.result = "disagree"
						}
					} else {
						res.result, res.solver, res.ms, res.model = o.r, o.sp.name, o.ms, o.model
						grace = time.After(3 * time.Second)
					}
				}
			case <-grace:
				break collect
			}
		}
		cancel()
	}
	solveCacheMu.Lock()
	solveCache[key] = res
	solveCacheMu.Unlock()
	return res
}

func race(sps []solverSpec, text string, timeout time.Duration, all map[string]string) solveResult {
	ctx, cancel := context.WithCancel(context.Background())
	defer cancel()
	type one struct {
		sp       solverSpec
		r, model string
		ms       int
	}
	ch := make(chan one, len(sps))
	for _, sp := range sps {
		go func(sp solverSpec) {
			r, m, ms := runSolver(ctx, sp, text, timeout)
			ch <- one{sp, r, m, ms}
		}(sp)
	}
	res := solveResult{result: "unknown", all: all}
	for range sps {
		o := <-ch
		all[o.sp.name] = o.r
		if o.r == "sat" || o.r == "unsat" {
			res.result, res.solver, res.ms, res.model = o.r, o.sp.name, o.ms, o.model
			cancel()
			return res
		}
	}
	return res
}

// dumpQuery writes the SMT text of a query for inspection.
func dumpQuery(dir, name string, n int, text string) string {
	os.MkdirAll(dir, 0o755)
	p := filepath.Join(dir, fmt.Sprintf("%s.%d.smt2", fileSafe(name), n))
	os.WriteFile(p, []byte(text), 0o644)
	return p
}

func fileSafe(s string) string {
	var sb strings.Builder
	for _, r := range s {
		switch {
		case r >= 'a' && r <= 'z', r >= 'A' && r <= 'Z', r >= '0' && r <= '9', r == '.', r == '-', r == '_':
			sb.WriteRune(r)
		default:
			sb.WriteByte('_')
		}
	}
	out := sb.String()
	if len(out) > 150 {
		h := sha256.Sum256([]byte(s))
		out = out[:130] + "_" + hex.EncodeToString(h[:6])
	}
	return out
}

// feasible asks whether cond can hold under the current path condition
// (used only inside unrolled loops so that they terminate).
func (fv *FuncVer) feasible(st *State, cond *Term) bool {
	// quantified assumptions are dropped: fewer assumptions can only make more
	// branches feasible, so pruning on `unsat` stays sound
	var as []*Term
	for _, a := range st.pc {
		if !hasQuant(a) {
			as = append(as, a)
		}
	}
	q := &Query{Assumptions: append(as, cond), Goal: False}
	text := fv.smtText(q, false)
	r, _, _ := runSolver(context.Background(), solverList()[0], text, 3*time.Second)
	return r != "unsat"
}


func hasQuant(t *Term) bool {
	if t.Q != nil {
		return true
	}
	for _, a := range t.Args {
		if hasQuant(a) {
			return true
		}
	}
	if t.Sym != nil && t.Sym.Def != nil {
		return hasQuant(t.Sym.Def)
	}
	return false
}
