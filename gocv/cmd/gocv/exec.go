package main

// Forward symbolic execution of go/ssa (NaiveForm) with named obligations.

import (
	"fmt"
	"go/ast"
	"go/constant"
	"go/token"
	"go/types"
	"math/big"
	"sort"
	"strings"

	"golang.org/x/tools/go/ssa"
)

type Query struct {
	Assumptions []*Term
	Goal        *Term
	Trace       []string
	Result      string // unsat, sat, unknown, timeout, error
	Solver      string
	Ms          int
	Model       string
	SMT         string
	Candidate   bool // not refuted, and the instantiated quantifier-free variant has a model
}

type Obligation struct {
	Name    string
	Kind    string
	Func    string
	Anchor  string
	Pos     token.Pos
	PosStr  string
	Queries []*Query
	Cover   bool // cover obligation: must be SAT (reachability / vacuity)
	Expect  string
	Text    string // human readable statement
}

type FuncVer struct {
	eng        *Engine
	ctx        *Ctx
	fn         *ssa.Function
	block      *Block
	obls       map[string]*Obligation
	oblOrder   []string
	paths      int
	maxPaths   int
	incomplete []string
	nopanic    bool
	nopanicKinds map[string]bool
	frameSeq   int
	loopInfos  map[*ssa.Function]*loopAnalysis
	loopEntry  *State
	aspect     string // "" = default pass
	returns    int
	panics     int
	prop       string
	siteOrd    map[string]map[token.Pos]bool
	stepBudget int
	heapSorts  map[string]*Sort
	heapTypes  map[string]types.Type
	mapKeySorts map[string]*Sort
	curCallbackSig *types.Signature
	hookFired map[*Clause]bool
	ghostLocals map[string]*ghostLocal
	pointees    map[string]pointee
	trustedCalls map[string]bool // callees whose preconditions are assumed, not proved, at this function's call sites
	ifaceTypes  map[string]types.Type // mkiface_<T> function symbol -> T
	ghostAxioms []*Term // well-formedness of initial ghost values; added to every query that mentions them
	entryVars  map[string]SVal
}

func (fv *FuncVer) shortName() string { return fv.eng.shortFuncName(fv.fn) }

// oblige records goal as an obligation under the current path condition.
func (fv *FuncVer) oblige(st *State, kind, anchor string, pos token.Pos, goal *Term, text string) {
	if fv.aspect != "" && !strings.Contains(kind, "@"+fv.aspect+"]") && !strings.Contains(kind, "@"+fv.aspect+",") {
		return // an aspect pass only proves its own clauses (those that name it first)
	}
	if goal.IsLit && goal.Bool {
		// trivially true on this path; still register the obligation name so it is counted
		fv.addQuery(st, kind, anchor, pos, nil, text)
		return
	}
	fv.addQuery(st, kind, anchor, pos, goal, text)
}

func (fv *FuncVer) addQuery(st *State, kind, anchor string, pos token.Pos, goal *Term, text string) {
	key := kind + ":" + anchor
	ob, ok := fv.obls[key]
	if !ok {
		ob = &Obligation{Kind: kind, Anchor: anchor, Func: fv.shortName(), Pos: pos, Text: text}
		if pos.IsValid() {
			p := fv.eng.fset.Position(pos)
			ob.PosStr = fmt.Sprintf("%s:%d", relPath(p.Filename), p.Line)
		}
		fv.obls[key] = ob
		fv.oblOrder = append(fv.oblOrder, key)
	}
	if goal == nil {
		return
	}
	goal = fv.skolemize(goal)
	// one query per top-level conjunct: smaller goals for the solvers
	// (also through the guards of implications: the guard moves to the assumptions)
	type part struct {
		hyps []*Term
		g    *Term
	}
	var parts []part
	var split func(hyps []*Term, g *Term, depth int)
	split = func(hyps []*Term, g *Term, depth int) {
		switch {
		case g.Op == "and" && len(g.Args) <= 24 && depth < 6 && len(parts) < 48:
			for _, a := range g.Args {
				split(hyps, a, depth+1)
			}
		case g.Op == "=>" && len(g.Args) == 2 && depth < 6:
			split(append(append([]*Term(nil), hyps...), g.Args[0]), g.Args[1], depth+1)
		default:
			parts = append(parts, part{hyps, g})
		}
	}
	split(nil, goal, 0)
	for _, p := range parts {
		as := append([]*Term(nil), st.pc...)
		as = append(as, p.hyps...)
		q := &Query{Assumptions: as, Goal: p.g, Trace: append([]string(nil), st.trace...)}
		ob.Queries = append(ob.Queries, q)
	}
}

func relPath(p string) string {
	return strings.TrimPrefix(p, "/repo/")
}

// ---------------------------------------------------------------------------

func (fv *FuncVer) constVal(c *ssa.Const) Val {
	t := c.Type()
	if c.Value == nil {
		return fv.ctx.Zero(t)
	}
	switch u := types.Unalias(t).Underlying().(type) {
	case *types.Basic:
		switch {
		case u.Info()&types.IsBoolean != 0:
			return BoolLit(constant.BoolVal(c.Value))
		case u.Info()&types.IsInteger != 0:
			v, ok := new(big.Int).SetString(c.Value.ExactString(), 10)
			if !ok {
				// untyped float constants converted to ints (e.g. 100e6)
				f, _ := constant.Float64Val(c.Value)
				v = big.NewInt(int64(f))
			}
			return fv.ctx.IntOf(v, t)
		case u.Info()&types.IsString != 0:
			return fv.ctx.StrLit(constant.StringVal(c.Value))
		case u.Info()&types.IsFloat != 0:
			return fv.ctx.Func("floatlit_"+sanitize(c.Value.ExactString()), fv.ctx.SortOf(t))
		}
	}
	return fv.ctx.Zero(t)
}

func (fv *FuncVer) val(st *State, v ssa.Value) Val {
	switch x := v.(type) {
	case *ssa.Const:
		return fv.constVal(x)
	case *ssa.Function:
		return &FuncRef{x}
	case *ssa.Global:
		et := x.Type().(*types.Pointer).Elem()
		return &Loc{Kind: rootGlobal, Global: x.String(), Typ: et, ElTyp: et}
	case *ssa.Builtin:
		return &BuiltinRef{x}
	case *ssa.FreeVar:
		f := st.top()
		for i, fvv := range f.fn.FreeVars {
			if fvv == x {
				return f.bindings[i]
			}
		}
		panic("free var not found")
	}
	f := st.top()
	r, ok := f.regs[v]
	if !ok {
		panic(unsupported(fmt.Sprintf("use of undefined value %s (%T) in %s", v.Name(), v, f.fn.Name())))
	}
	return r
}

func (fv *FuncVer) tval(st *State, v ssa.Value) *Term { return fv.term(fv.val(st, v)) }

func (fv *FuncVer) setReg(st *State, v ssa.Value, val Val) {
	if t, ok := val.(*Term); ok {
		val = fv.ctx.Name("r_"+v.Name(), t)
	}
	st.top().regs[v] = val
}

// ---------------------------------------------------------------------------

type pathEnd struct{}

// verify runs the function body from the given initial state.
func (fv *FuncVer) explore(st *State) {
	defer func() {
		if r := recover(); r != nil {
			switch e := r.(type) {
			case unsupported:
				fv.incomplete = append(fv.incomplete, string(e)+" @ "+fv.where(st))
			case pathEnd:
			default:
				panic(r)
			}
		}
	}()
	fv.run(st)
}

func (fv *FuncVer) where(st *State) string {
	if len(st.frames) == 0 {
		return "?"
	}
	f := st.top()
	if f.block != nil && f.ip < len(f.block.Instrs) {
		if p := f.block.Instrs[f.ip].Pos(); p.IsValid() {
			pp := fv.eng.fset.Position(p)
			return fmt.Sprintf("%s:%d", relPath(pp.Filename), pp.Line)
		}
	}
	return f.fn.Name()
}

func (fv *FuncVer) run(st *State) {
	for {
		f := st.top()
		if f.ip >= len(f.block.Instrs) {
			panic("fell off block")
		}
		fv.stepBudget--
		if fv.stepBudget < 0 {
			panic(unsupported("step budget exhausted"))
		}
		ins := f.block.Instrs[f.ip]
		cont := fv.step(st, ins)
		if !cont {
			return
		}
	}
}

// endsInPanic: the block is the body of an `if ... { panic(...) }` (no way back into a loop, and
// not a break out of it either).
func endsInPanic(b *ssa.BasicBlock) bool {
	if n := len(b.Instrs); n > 0 {
		_, ok := b.Instrs[n-1].(*ssa.Panic)
		return ok
	}
	return false
}

// jump moves the top frame to block b, handling loop headers. Returns false if the path ends.
func (fv *FuncVer) jump(st *State, b *ssa.BasicBlock) bool {
	f := st.top()
	la := fv.loopsOf(f.fn)
	// leave loops that do not contain b
	for len(st.loops) > 0 {
		al := st.loops[len(st.loops)-1]
		if al.frame != f.id {
			break
		}
		li := la.byHeader[al.header]
		if b == al.header || li.body[b] {
			break
		}
		if al.spec != nil && al.spec.Exhaustive && f.block != al.header && !endsInPanic(b) {
			// an edge out of the loop that does not start at its head: break / goto
			fv.oblige(st, "exhaustive", al.key, token.NoPos, False, fmt.Sprintf("loop %q is left only when its range is exhausted (no break reachable)", al.key))
		}
		st.loops = st.loops[:len(st.loops)-1]
	}
	f.prev = f.block
	f.block = b
	f.ip = 0
	st.trace = append(st.trace, fmt.Sprintf("%s.%d", f.fn.Name(), b.Index))
	li := la.byHeader[b]
	if li == nil {
		return true
	}
	// loop header
	if n := len(st.loops); n > 0 && st.loops[n-1].frame == f.id && st.loops[n-1].header == b {
		al := &st.loops[n-1]
		if al.spec != nil && al.spec.Unroll > 0 {
			al.iters++
			if al.iters > al.spec.Unroll+1 {
				fv.oblige(st, "unwind", al.key, token.NoPos, False, fmt.Sprintf("loop %q exits within %d iterations", al.key, al.spec.Unroll))
				return false
			}
			return true
		}
		// back edge: invariant must be preserved
		fv.loopEntry = al.entry
		fv.checkInvariants(st, al.spec, al.key, "preserve", f)
		fv.loopEntry = nil
		fv.loopFrame(st, f, al.key, "preserve", al.hks)
		return false
	}
	spec, key := fv.loopSpec(f.fn, li)
	if spec != nil && spec.Unroll > 0 {
		st.loops = append(st.loops, activeLoop{frame: f.id, header: b, iters: 1, spec: spec, key: key})
		return true
	}
	var entry *State
	if spec != nil && spec.usesLoopEntry() {
		entry = st.clone()
	}
	fv.loopEntry = entry
	fv.checkInvariants(st, spec, key, "entry", f)
	ms, blocks := fv.loopMods(st, f, li)
	hks := ms.heapKeys()
	if len(st.frames) != 1 {
		hks = nil // loops of inlined callees: the frame is checked where the callee returns
	}
	fv.loopFrame(st, f, key, "entry", hks)
	fv.havocLoop(st, f, li, ms, blocks)
	fv.loopFrame(st, f, key, "assume", hks)
	fv.assumeRangeBounds(st, f, li)
	fv.assumeInvariants(st, spec, f)
	fv.loopEntry = nil
	if spec != nil && spec.Exhaustive {
		// registers the obligation name on every run; the edges that would violate it add the goals
		fv.oblige(st, "exhaustive", key, token.NoPos, True, fmt.Sprintf("loop %q is left only when its range is exhausted (no break reachable)", key))
	}
	if spec != nil && len(st.frames) == 1 {
		// vacuity guard: the invariants (with everything assumed before) admit a state at the loop head
		fv.addCover(st, "loop:"+key, "the loop head is reachable under the invariants")
	}
	st.loops = append(st.loops, activeLoop{frame: f.id, header: b, spec: spec, key: key, entry: entry, hks: hks})
	return true
}

func (fv *FuncVer) step(st *State, ins ssa.Instruction) bool {
	f := st.top()
	c := fv.ctx
	switch x := ins.(type) {
	case *ssa.DebugRef:
	case *ssa.Alloc:
		et := x.Type().(*types.Pointer).Elem()
		_, holdsFunc := types.Unalias(et).Underlying().(*types.Signature)
		// a captured variable of function type holds a closure, which has no SMT value: keep
		// it in a cell (it is only reached through the variable or a closure binding)
		if x.Heap && !holdsFunc {
			r := fv.newRef(st)
			l := &Loc{Kind: rootHeap, Ref: r, Typ: et, ElTyp: et}
			fv.store(st, l, c.Zero(et))
			f.regs[x] = l
		} else {
			k := cellKey{f.id, x}
			st.cells[k] = c.Zero(et)
			f.regs[x] = &Loc{Kind: rootCell, Cell: k, Typ: et, ElTyp: et}
		}
	case *ssa.Store:
		addrT := x.Addr.Type().Underlying().(*types.Pointer).Elem()
		l := fv.locOf(fv.val(st, x.Addr), addrT)
		fv.checkNonNil(st, l, x.Pos(), x)
		fv.store(st, l, fv.val(st, x.Val))
	case *ssa.UnOp:
		fv.unop(st, x)
	case *ssa.BinOp:
		fv.setReg(st, x, fv.binop(st, x))
	case *ssa.Phi:
		for i, p := range f.block.Preds {
			if p == f.prev {
				f.regs[x] = fv.val(st, x.Edges[i])
				break
			}
		}
	case *ssa.Jump:
		return fv.jump(st, f.block.Succs[0])
	case *ssa.If:
		cond := fv.tval(st, x.Cond)
		tb, fb := f.block.Succs[0], f.block.Succs[1]
		rc := resolve(cond)
		if rc.IsLit {
			if rc.Bool {
				return fv.jump(st, tb)
			}
			return fv.jump(st, fb)
		}
		if fv.inUnrolledLoop(st) {
			// keep only feasible successors so unrolled loops terminate
			tOK := fv.feasible(st, cond)
			fOK := fv.feasible(st, Not(cond))
			switch {
			case tOK && !fOK:
				st.assume(cond)
				return fv.jump(st, tb)
			case fOK && !tOK:
				st.assume(Not(cond))
				return fv.jump(st, fb)
			case !tOK && !fOK:
				return false
			}
		}
		fv.paths++
		if fv.paths > fv.maxPaths {
			panic(unsupported(fmt.Sprintf("path cap %d exceeded", fv.maxPaths)))
		}
		other := st.clone()
		other.assume(Not(cond))
		func() {
			defer fv.catch(other)
			if fv.jump(other, fb) {
				fv.run(other)
			}
		}()
		st.assume(cond)
		return fv.jump(st, tb)
	case *ssa.Return:
		var res []Val
		for _, r := range x.Results {
			res = append(res, fv.val(st, r))
		}
		return fv.doReturn(st, res)
	case *ssa.RunDefers:
		return fv.runDefers(st)
	case *ssa.Panic:
		fv.panics++
		if len(st.frames) == 1 || true {
			if fv.nopanic {
				fv.oblige(st, "nopanic", fv.anchorAt(x.Pos(), "panic"), x.Pos(), False, "explicit panic is unreachable")
			}
		}
		fv.onPanicExit(st)
		return false
	case *ssa.FieldAddr:
		pt := x.X.Type().Underlying().(*types.Pointer).Elem()
		l := fv.locOf(fv.val(st, x.X), pt)
		fv.checkNonNil(st, l, x.Pos(), x)
		ft := pt.Underlying().(*types.Struct).Field(x.Field).Type()
		f.regs[x] = l.extend(Sel{Field: x.Field, Typ: pt}, ft)
	case *ssa.Field:
		sv := fv.tval(st, x.X)
		ft := x.X.Type().Underlying().(*types.Struct).Field(x.Field).Type()
		r := Field(sv, x.Field)
		st.assume(fv.wf(st, r, ft, 1))
		fv.setReg(st, x, r)
	case *ssa.IndexAddr:
		fv.indexAddr(st, x)
	case *ssa.Index:
		fv.index(st, x)
	case *ssa.Slice:
		fv.slice(st, x)
	case *ssa.Lookup:
		fv.lookup(st, x)
	case *ssa.MapUpdate:
		fv.mapUpdate(st, x)
	case *ssa.MakeMap:
		r := fv.newRef(st)
		mt := x.Type().Underlying().(*types.Map)
		fv.initMap(st, r, mt)
		fv.setReg(st, x, r)
	case *ssa.MakeSlice:
		ln := c.ToW(fv.tval(st, x.Len), x.Len.Type())
		cp := c.ToW(fv.tval(st, x.Cap), x.Cap.Type())
		if fv.nopanic {
			fv.oblige(st, "bounds", fv.anchorAt(x.Pos(), "make"), x.Pos(), And(c.WLe(c.WLit(0), ln), c.WLe(ln, cp)), "make: 0 <= len <= cap")
		}
		st.assume(And(c.WLe(c.WLit(0), ln), c.WLe(ln, cp)))
		et := x.Type().Underlying().(*types.Slice).Elem()
		r := fv.newRef(st)
		key, hs := fv.elemsKey(et)
		st.heaps[key] = Store(fv.heap(st, key, hs), r, ConstArray(hs.Elem, c.Zero(et)))
		fv.setReg(st, x, MkDT(c.SSlice, r, c.WLit(0), ln, cp))
	case *ssa.MakeClosure:
		var bs []Val
		for _, b := range x.Bindings {
			bs = append(bs, fv.val(st, b))
		}
		f.regs[x] = &Closure{Fn: x.Fn.(*ssa.Function), Bindings: bs}
	case *ssa.MakeInterface:
		fv.setReg(st, x, fv.makeIface(st, fv.val(st, x.X), x.X.Type()))
	case *ssa.ChangeInterface:
		f.regs[x] = fv.val(st, x.X)
	case *ssa.ChangeType:
		f.regs[x] = fv.changeType(st, fv.val(st, x.X), x.X.Type(), x.Type())
	case *ssa.Convert:
		fv.setReg(st, x, fv.convert(st, x))
	case *ssa.TypeAssert:
		fv.typeAssert(st, x)
	case *ssa.Extract:
		tv := fv.val(st, x.Tuple)
		tu, ok := tv.(*Tuple)
		if !ok {
			panic(unsupported("extract from non-tuple"))
		}
		f.regs[x] = tu.Vals[x.Index]
	case *ssa.Call:
		return fv.call(st, x, &x.Call, x)
	case *ssa.Defer:
		var args []Val
		for _, a := range x.Call.Args {
			args = append(args, fv.val(st, a))
		}
		var fn Val
		if !x.Call.IsInvoke() {
			fn = fv.val(st, x.Call.Value)
		} else {
			fn = fv.val(st, x.Call.Value)
		}
		f.defers = append(f.defers, deferred{call: &x.Call, fn: fn, args: args, site: x})
	case *ssa.Go:
		// the spawned function is verified separately against its own contract;
		// the spawner learns nothing and shared state may change at any time.
		fv.note(st, "go statement: spawned function not followed")
		fv.recordEventT(st, "go", nil, nil, x)
		fv.afterCall(st, "go")
	case *ssa.Range:
		fv.rangeInit(st, x)
	case *ssa.Next:
		fv.next(st, x)
	case *ssa.MakeChan:
		r := fv.newRef(st)
		fv.setReg(st, x, r)
		// a new channel is open
		st.assume(Not(Select(fv.chanClosed(st), r)))
	case *ssa.Send:
		fv.recordEventT(st, "chan.send", []*Term{fv.safeTerm(fv.val(st, x.Chan))}, nil, x)
		fv.afterCall(st, "chan.send")
		fv.note(st, "channel send: recorded as an event, no data flow")
	case *ssa.Select:
		fv.selectStmt(st, x)
	case *ssa.SliceToArrayPointer:
		sl := fv.tval(st, x.X)
		at := x.Type().Underlying().(*types.Pointer).Elem()
		n := at.Underlying().(*types.Array).Len()
		ln := Field(sl, 2)
		ok := c.WLe(c.WLit(n), ln)
		if fv.nopanic {
			fv.oblige(st, "bounds", fv.anchorAt(x.Pos(), "slice-to-array"), x.Pos(), ok, "slice to array pointer conversion length")
		}
		st.assume(ok)
		if _, isB := isByteArray(at); isB && n >= fv.ctx.opaqueMin {
			// opaque array viewed through a byte slice: value determined by the bytes
			et := at.Underlying().(*types.Array).Elem()
			key, hs := fv.elemsKey(et)
			arr := Select(fv.heap(st, key, hs), Field(sl, 0))
			v := c.Func(fmt.Sprintf("pack_B%d", n), c.SortOf(at), arr, Field(sl, 1))
			r := fv.newRef(st)
			l := &Loc{Kind: rootHeap, Ref: r, Typ: at, ElTyp: at}
			fv.store(st, l, v)
			f.regs[x] = l
		} else {
			panic(unsupported("slice to array pointer"))
		}
	case *ssa.MultiConvert:
		panic(unsupported("multiconvert"))
	default:
		panic(unsupported(fmt.Sprintf("instruction %T", ins)))
	}
	f.ip++
	return true
}

func (fv *FuncVer) catch(st *State) {
	if r := recover(); r != nil {
		switch e := r.(type) {
		case unsupported:
			fv.incomplete = append(fv.incomplete, string(e)+" @ "+fv.where(st))
		case pathEnd:
		default:
			panic(r)
		}
	}
}

func (fv *FuncVer) note(st *State, s string) {
	for _, n := range st.notes {
		if n == s {
			return
		}
	}
	st.notes = append(st.notes, s)
}

func (fv *FuncVer) inUnrolledLoop(st *State) bool {
	for _, al := range st.loops {
		if al.spec != nil && al.spec.Unroll > 0 {
			return true
		}
	}
	return false
}

// ---------------------------------------------------------------------------
// individual instructions

func (fv *FuncVer) checkNonNil(st *State, l *Loc, pos token.Pos, ins ssa.Instruction) {
	if l.Kind != rootHeap || len(l.Path) != 0 && false {
		return
	}
	r := resolve(l.Ref)
	if r.IsLit && r.Int.Sign() != 0 {
		return
	}
	if isFreshRef(l.Ref) {
		return
	}
	nn := Not(Eq(l.Ref, IntLit(0)))
	if fv.nopanic {
		fv.oblige(st, "nilderef", fv.anchorAt(pos, "deref"), pos, nn, "pointer is not nil")
	}
	st.assume(nn)
}

func isFreshRef(t *Term) bool {
	// nextRef-derived: "nr0" or (+ nr0 k)
	s := t.String()
	return strings.HasPrefix(s, "nr!") || strings.HasPrefix(s, "(+ nr!")
}

func (fv *FuncVer) unop(st *State, x *ssa.UnOp) {
	c := fv.ctx
	switch x.Op {
	case token.MUL: // load
		et := x.X.Type().Underlying().(*types.Pointer).Elem()
		l := fv.locOf(fv.val(st, x.X), et)
		fv.checkNonNil(st, l, x.Pos(), x)
		v := fv.load(st, l)
		if t, ok := v.(*Term); ok {
			if l.Kind != rootCell || len(l.Path) > 0 {
				// (a field of a local struct too: the nested fields of a value stored whole into
				// the local were not covered when it was loaded)
				st.assume(fv.wf(st, t, et, 1))
			}
			fv.setReg(st, x, t)
		} else {
			st.top().regs[x] = v
		}
	case token.NOT:
		fv.setReg(st, x, Not(fv.tval(st, x.X)))
	case token.SUB:
		t := x.X.Type()
		fv.setReg(st, x, c.Bin(token.SUB, c.IntOf(big.NewInt(0), t), fv.tval(st, x.X), t, t))
	case token.XOR:
		t := x.X.Type()
		if c.BV {
			v := fv.tval(st, x.X)
			fv.setReg(st, x, mk("bvnot", v.Sort, v))
		} else {
			fv.setReg(st, x, c.Func("not_"+basicOf(t).Name(), SInt, fv.tval(st, x.X)))
		}
	case token.ARROW:
		// channel receive: arbitrary value (recorded as an event "chan.recv")
		et := x.X.Type().Underlying().(*types.Chan).Elem()
		v := fv.freshVal(st, "recv", et)
		fv.recordEventT(st, "chan.recv", []*Term{fv.safeTerm(fv.val(st, x.X))}, nil, x)
		fv.afterCall(st, "chan.recv")
		if x.CommaOk {
			st.top().regs[x] = &Tuple{[]Val{v, fv.ctx.Fresh("recvok", SBool)}}
		} else {
			fv.setReg(st, x, v)
		}
	default:
		panic(unsupported("unop " + x.Op.String()))
	}
}

// Channels (minimal model for shutdown logic): a channel is a reference; chanClosed maps
// references to "has been closed"; closeOnly marks channels that are never sent on (a contract
// says so with closeonly(c)), for which a receive can only succeed once the channel is closed.
func (fv *FuncVer) chanClosed(st *State) *Term {
	if t, ok := st.globals["chan:closed"]; ok {
		return t
	}
	t := fv.ctx.Const("chan_closed0", fv.ctx.ArraySort(SInt, SBool))
	st.globals["chan:closed"] = t
	if st.old != nil && st.old != st {
		if _, ok := st.old.globals["chan:closed"]; !ok {
			st.old.globals["chan:closed"] = t
		}
	}
	return t
}

func (fv *FuncVer) closeOnly() *Term {
	return fv.ctx.Const("chan_closeonly", fv.ctx.ArraySort(SInt, SBool))
}

// selectStmt: the chosen case is an unknown index. Without a default some case is chosen; with
// a default, the default (-1) is only taken when no receive on a closed channel is possible. A
// receive from a close-only channel can be chosen only when that channel is closed.
func (fv *FuncVer) selectStmt(st *State, x *ssa.Select) {
	c := fv.ctx
	idx := c.Fresh("selidx", SInt)
	n := int64(len(x.States))
	lo := int64(0)
	if !x.Blocking {
		lo = -1
	}
	st.assume(And(ILe(IntLit(lo), idx), ILt(idx, IntLit(n))))
	closed := fv.chanClosed(st)
	vals := []Val{idx, c.Fresh("selok", SBool)}
	for i, sst := range x.States {
		ch := fv.safeTerm(fv.val(st, sst.Chan))
		if sst.Dir == types.RecvOnly {
			if !x.Blocking {
				st.assume(Implies(Select(closed, ch), Not(Eq(idx, IntLit(-1)))))
			}
			st.assume(Implies(And(Eq(idx, IntLit(int64(i))), Select(fv.closeOnly(), ch)), Select(closed, ch)))
			et := sst.Chan.Type().Underlying().(*types.Chan).Elem()
			vals = append(vals, fv.freshVal(st, "selrecv", et))
		}
	}
	fv.recordEventT(st, "select", []*Term{idx}, nil, x)
	st.top().regs[x] = &Tuple{vals}
	// `aftercall select : g = ...` may refer to the chosen case as selcase
	st.globals["sel:case"] = idx
	fv.afterCall(st, "select")
}

func (fv *FuncVer) binop(st *State, x *ssa.BinOp) *Term {
	c := fv.ctx
	t := x.X.Type()
	switch x.Op {
	case token.EQL, token.NEQ:
		e := fv.goEqual(st, fv.val(st, x.X), fv.val(st, x.Y), t)
		if x.Op == token.NEQ {
			return Not(e)
		}
		return e
	case token.LSS, token.LEQ, token.GTR, token.GEQ:
		a, b := fv.tval(st, x.X), fv.tval(st, x.Y)
		if isIntType(t) {
			return c.Cmp(x.Op, a, b, t)
		}
		if bt := basicOf(t); bt != nil && bt.Info()&types.IsString != 0 {
			lt := c.Func("str.lt_", SBool, a, b)
			switch x.Op {
			case token.LSS:
				return lt
			case token.GEQ:
				return Not(lt)
			case token.GTR:
				return c.Func("str.lt_", SBool, b, a)
			default:
				return Not(c.Func("str.lt_", SBool, b, a))
			}
		}
		return c.Func("cmp_"+x.Op.String()+"_"+a.Sort.Name, SBool, a, b)
	}
	a, b := fv.tval(st, x.X), fv.tval(st, x.Y)
	if bt := basicOf(t); bt != nil && bt.Info()&types.IsString != 0 && x.Op == token.ADD {
		r := c.Func("str.concat_", c.SStr, a, b)
		st.assume(Eq(c.StrLen(r), c.WAdd(c.StrLen(a), c.StrLen(b))))
		return r
	}
	if !isIntType(t) {
		return c.Func("op_"+sanitize(x.Op.String())+"_"+a.Sort.Name, a.Sort, a, b)
	}
	if (x.Op == token.QUO || x.Op == token.REM) && isIntType(t) {
		nz := Not(Eq(b, c.IntOf(big.NewInt(0), t)))
		if fv.nopanic || fv.nopanicKinds["divzero"] {
			fv.oblige(st, "divzero", fv.anchorAt(x.Pos(), "div"), x.Pos(), nz, "divisor is not zero")
		}
		st.assume(nz)
	}
	return c.Bin(x.Op, a, b, t, x.Y.Type())
}

// goEqual implements == of Go values of static type t.
func (fv *FuncVer) goEqual(st *State, a, b Val, t types.Type) *Term {
	c := fv.ctx
	if la, ok := a.(*Loc); ok {
		if lb, ok := b.(*Loc); ok {
			return BoolLit(la.String() == lb.String())
		}
		if tb, ok := b.(*Term); ok && resolve(tb).IsLit && resolve(tb).Int.Sign() == 0 {
			return False // a location is never nil
		}
	}
	if _, ok := b.(*Loc); ok {
		if ta, ok := a.(*Term); ok && resolve(ta).IsLit && resolve(ta).Int.Sign() == 0 {
			return False
		}
	}
	switch a.(type) {
	case *Closure, *FuncRef:
		if tb, ok := b.(*Term); ok && resolve(tb).IsLit {
			return False
		}
	}
	switch b.(type) {
	case *Closure, *FuncRef:
		if ta, ok := a.(*Term); ok && resolve(ta).IsLit {
			return False
		}
	}
	x, y := fv.term(a), fv.term(b)
	switch u := types.Unalias(t).Underlying().(type) {
	case *types.Slice:
		// only comparison with nil is legal
		if resolve(y).Op == c.SSlice.DT.Ctor && resolve(resolve(y).Args[0]).IsLit {
			return Eq(Field(x, 0), IntLit(0))
		}
		if resolve(x).Op == c.SSlice.DT.Ctor && resolve(resolve(x).Args[0]).IsLit {
			return Eq(Field(y, 0), IntLit(0))
		}
		// reached from contracts only (Go cannot compare two non-nil slices): same slice header
		return Eq(x, y)
	case *types.Array:
		if x.Sort.Elem != nil && u.Len() <= 64 {
			var cs []*Term
			for i := int64(0); i < u.Len(); i++ {
				cs = append(cs, fv.goEqual(st, Select(x, c.WLit(i)), Select(y, c.WLit(i)), u.Elem()))
			}
			return And(cs...)
		}
	case *types.Struct:
		if x.Sort.DT != nil {
			var cs []*Term
			for i := 0; i < u.NumFields(); i++ {
				if u.Field(i).Name() == "_" {
					continue
				}
				cs = append(cs, fv.goEqual(st, Field(x, i), Field(y, i), u.Field(i).Type()))
			}
			// keep the plain equality too: it is equivalent and cheaper for the solver when no arrays are inside
			if !fv.containsArray(u) {
				return Eq(x, y)
			}
			return And(cs...)
		}
	}
	return Eq(x, y)
}

func (fv *FuncVer) containsArray(s *types.Struct) bool {
	for i := 0; i < s.NumFields(); i++ {
		switch u := types.Unalias(s.Field(i).Type()).Underlying().(type) {
		case *types.Array:
			if n, ok := isByteArray(s.Field(i).Type()); ok && n >= fv.ctx.opaqueMin {
				continue
			}
			return true
		case *types.Struct:
			if fv.containsArray(u) {
				return true
			}
		}
	}
	return false
}

func (fv *FuncVer) indexAddr(st *State, x *ssa.IndexAddr) {
	c := fv.ctx
	f := st.top()
	idx := c.ToW(fv.tval(st, x.Index), x.Index.Type())
	switch u := x.X.Type().Underlying().(type) {
	case *types.Slice:
		sl := fv.tval(st, x.X)
		ln := Field(sl, 2)
		ok := And(c.WLe(c.WLit(0), idx), c.WLt(idx, ln))
		fv.boundsCheck(st, ok, x.Pos(), "index")
		l := &Loc{Kind: rootElems, Ref: Field(sl, 0), Typ: u.Elem(), ElTyp: u.Elem(),
			Path: []Sel{{Index: c.WAdd(Field(sl, 1), idx)}}}
		if g := fv.immutableGlobalSlice(sl); g != "" {
			l.GlobalSlice, l.RelIndex = g, idx
		}
		f.regs[x] = l
	case *types.Pointer:
		at := u.Elem()
		arr := at.Underlying().(*types.Array)
		ok := And(c.WLe(c.WLit(0), idx), c.WLt(idx, c.WLit(arr.Len())))
		fv.boundsCheck(st, ok, x.Pos(), "index")
		l := fv.locOf(fv.val(st, x.X), at)
		fv.checkNonNil(st, l, x.Pos(), x)
		if n, isB := isByteArray(at); isB && n >= fv.ctx.opaqueMin {
			panic(unsupported("indexing into opaque byte array"))
		}
		f.regs[x] = l.extend(Sel{Index: idx, Typ: at}, arr.Elem())
	default:
		panic(unsupported("indexaddr on " + x.X.Type().String()))
	}
}

func (fv *FuncVer) boundsCheck(st *State, ok *Term, pos token.Pos, what string) {
	if fv.nopanic || fv.nopanicKinds["bounds"] {
		fv.oblige(st, "bounds", fv.anchorAt(pos, what), pos, ok, "index in range")
	}
	st.assume(ok)
}

func (fv *FuncVer) index(st *State, x *ssa.Index) {
	c := fv.ctx
	idx := c.ToW(fv.tval(st, x.Index), x.Index.Type())
	switch u := x.X.Type().Underlying().(type) {
	case *types.Array:
		ok := And(c.WLe(c.WLit(0), idx), c.WLt(idx, c.WLit(u.Len())))
		fv.boundsCheck(st, ok, x.Pos(), "index")
		arr := fv.tval(st, x.X)
		if arr.Sort.Elem == nil {
			fv.setReg(st, x, c.Func(fmt.Sprintf("byteat_%s", arr.Sort.Name), c.SortOf(u.Elem()), arr, idx))
		} else {
			fv.setReg(st, x, Select(arr, idx))
		}
	case *types.Basic: // string
		s := fv.tval(st, x.X)
		ok := And(c.WLe(c.WLit(0), idx), c.WLt(idx, c.StrLen(s)))
		fv.boundsCheck(st, ok, x.Pos(), "index")
		fv.setReg(st, x, c.Func("str.at_", c.SortOf(types.Typ[types.Uint8]), s, idx))
	default:
		panic(unsupported("index on " + x.X.Type().String()))
	}
}

func (fv *FuncVer) slice(st *State, x *ssa.Slice) {
	c := fv.ctx
	f := st.top()
	var lo, hi, mx *Term
	if x.Low != nil {
		lo = c.ToW(fv.tval(st, x.Low), x.Low.Type())
	}
	if x.High != nil {
		hi = c.ToW(fv.tval(st, x.High), x.High.Type())
	}
	if x.Max != nil {
		mx = c.ToW(fv.tval(st, x.Max), x.Max.Type())
	}
	switch u := x.X.Type().Underlying().(type) {
	case *types.Slice:
		sl := fv.tval(st, x.X)
		base, off, ln, cp := Field(sl, 0), Field(sl, 1), Field(sl, 2), Field(sl, 3)
		if lo == nil {
			lo = c.WLit(0)
		}
		if hi == nil {
			hi = ln
		}
		if mx == nil {
			mx = cp
		}
		ok := And(c.WLe(c.WLit(0), lo), c.WLe(lo, hi), c.WLe(hi, mx), c.WLe(mx, cp))
		fv.boundsCheck(st, ok, x.Pos(), "slice")
		fv.setReg(st, x, MkDT(c.SSlice, base, c.WAdd(off, lo), c.WSub(hi, lo), c.WSub(mx, lo)))
	case *types.Basic: // string
		s := fv.tval(st, x.X)
		ln := c.StrLen(s)
		if lo == nil {
			lo = c.WLit(0)
		}
		if hi == nil {
			hi = ln
		}
		ok := And(c.WLe(c.WLit(0), lo), c.WLe(lo, hi), c.WLe(hi, ln))
		fv.boundsCheck(st, ok, x.Pos(), "slice")
		r := c.Func("str.sub_", c.SStr, s, lo, hi)
		st.assume(Eq(c.StrLen(r), c.WSub(hi, lo)))
		fv.setReg(st, x, r)
	case *types.Pointer:
		at := u.Elem()
		arr := at.Underlying().(*types.Array)
		n := c.WLit(arr.Len())
		if lo == nil {
			lo = c.WLit(0)
		}
		if hi == nil {
			hi = n
		}
		if mx == nil {
			mx = n
		}
		ok := And(c.WLe(c.WLit(0), lo), c.WLe(lo, hi), c.WLe(hi, mx), c.WLe(mx, n))
		fv.boundsCheck(st, ok, x.Pos(), "slice")
		l := fv.locOf(fv.val(st, x.X), at)
		var base *Term
		if nb, isB := isByteArray(at); isB && nb >= fv.ctx.opaqueMin {
			// read-only byte view of an opaque array value
			v := fv.term(fv.load(st, l))
			base = fv.newRef(st)
			key, hs := fv.elemsKey(arr.Elem())
			bytes := c.Func(fmt.Sprintf("bytes_B%d", nb), hs.Elem, v)
			st.assume(Eq(c.Func(fmt.Sprintf("pack_B%d", nb), c.SortOf(at), bytes, c.WLit(0)), v))
			st.heaps[key] = Store(fv.heap(st, key, hs), base, bytes)
			ro := map[string]bool{}
			for k := range st.readonly {
				ro[k] = true
			}
			ro[base.String()] = true
			st.readonly = ro
		} else {
			if len(l.Path) != 0 || l.Kind == rootCell || l.Kind == rootGlobal {
				panic(unsupported("slicing an array that is not a whole heap object: " + l.String()))
			}
			base = l.Ref
			fv.checkNonNil(st, l, x.Pos(), x)
		}
		f.regs[x] = fv.ctx.Name("sl", MkDT(c.SSlice, base, lo, c.WSub(hi, lo), c.WSub(mx, lo)))
	default:
		panic(unsupported("slice of " + x.X.Type().String()))
	}
}

// ---------------------------------------------------------------------------
// maps

func (fv *FuncVer) mapHeaps(st *State, mt *types.Map) (hk, vk, lk string, hs, vs, ls *Sort) {
	c := fv.ctx
	k := typeKey(mt)
	ks, es := c.SortOf(mt.Key()), c.SortOf(mt.Elem())
	hs = c.ArraySort(SInt, c.ArraySort(ks, SBool))
	vs = c.ArraySort(SInt, c.ArraySort(ks, es))
	ls = c.ArraySort(SInt, c.W)
	fv.heapSorts["MH:"+k], fv.heapSorts["MV:"+k], fv.heapSorts["ML:"+k] = hs, vs, ls
	fv.heapTypes["MV:"+k] = mt.Elem()
	fv.mapKeySorts["MV:"+k] = ks
	return "MH:" + k, "MV:" + k, "ML:" + k, hs, vs, ls
}

func (fv *FuncVer) mapHas(st *State, m *Term, mt *types.Map) *Term {
	hk, _, _, hs, _, _ := fv.mapHeaps(st, mt)
	return Select(fv.heap(st, hk, hs), m)
}
func (fv *FuncVer) mapVals(st *State, m *Term, mt *types.Map) *Term {
	_, vk, _, _, vs, _ := fv.mapHeaps(st, mt)
	return Select(fv.heap(st, vk, vs), m)
}
func (fv *FuncVer) mapLen(st *State, m *Term, mt *types.Map) *Term {
	_, _, lk, _, _, ls := fv.mapHeaps(st, mt)
	l := Select(fv.heap(st, lk, ls), m)
	st.assume(fv.ctx.WLe(fv.ctx.WLit(0), l))
	return l
}

func (fv *FuncVer) initMap(st *State, r *Term, mt *types.Map) {
	c := fv.ctx
	hk, vk, lk, hs, vs, ls := fv.mapHeaps(st, mt)
	st.heaps[hk] = Store(fv.heap(st, hk, hs), r, ConstArray(hs.Elem, False))
	st.heaps[vk] = Store(fv.heap(st, vk, vs), r, ConstArray(vs.Elem, c.Zero(mt.Elem())))
	st.heaps[lk] = Store(fv.heap(st, lk, ls), r, c.WLit(0))
}

// nilMapFacts: the nil map has no entries.
func (fv *FuncVer) nilMapFacts(st *State, mt *types.Map) {
	hk, _, lk, hs, _, ls := fv.mapHeaps(st, mt)
	st.assume(Eq(Select(fv.heap(st, hk, hs), IntLit(0)), ConstArray(hs.Elem, False)))
	st.assume(Eq(Select(fv.heap(st, lk, ls), IntLit(0)), fv.ctx.WLit(0)))
}

func (fv *FuncVer) lookup(st *State, x *ssa.Lookup) {
	c := fv.ctx
	switch u := x.X.Type().Underlying().(type) {
	case *types.Map:
		m := fv.tval(st, x.X)
		k := fv.tval(st, x.Index)
		fv.nilMapFacts(st, u)
		has := Select(fv.mapHas(st, m, u), k)
		val := Ite(has, Select(fv.mapVals(st, m, u), k), c.Zero(u.Elem()))
		val = c.Name("mv", val)
		st.assume(fv.wf(st, val, u.Elem(), 1))
		if x.CommaOk {
			st.top().regs[x] = &Tuple{[]Val{val, has}}
		} else {
			fv.setReg(st, x, val)
		}
	case *types.Basic:
		s := fv.tval(st, x.X)
		idx := c.ToW(fv.tval(st, x.Index), x.Index.Type())
		ok := And(c.WLe(c.WLit(0), idx), c.WLt(idx, c.StrLen(s)))
		fv.boundsCheck(st, ok, x.Pos(), "index")
		fv.setReg(st, x, c.Func("str.at_", c.SortOf(types.Typ[types.Uint8]), s, idx))
	default:
		panic(unsupported("lookup"))
	}
}

func (fv *FuncVer) mapUpdate(st *State, x *ssa.MapUpdate) {
	mt := x.Map.Type().Underlying().(*types.Map)
	m := fv.tval(st, x.Map)
	k := fv.tval(st, x.Key)
	v := fv.tval(st, x.Value)
	nn := Not(Eq(m, IntLit(0)))
	if fv.nopanic {
		fv.oblige(st, "nilmap", fv.anchorAt(x.Pos(), "mapupdate"), x.Pos(), nn, "assignment to entry in non-nil map")
	}
	st.assume(nn)
	fv.mapStore(st, m, mt, k, v)
}

func (fv *FuncVer) mapStore(st *State, m *Term, mt *types.Map, k, v *Term) {
	c := fv.ctx
	hk, vk, lk, hs, vs, ls := fv.mapHeaps(st, mt)
	H, V, L := fv.heap(st, hk, hs), fv.heap(st, vk, vs), fv.heap(st, lk, ls)
	had := Select(Select(H, m), k)
	st.heaps[hk] = c.Name("mh", Store(H, m, Store(Select(H, m), k, True)))
	st.heaps[vk] = c.Name("mv", Store(V, m, Store(Select(V, m), k, v)))
	st.heaps[lk] = c.Name("ml", Store(L, m, Ite(had, Select(L, m), c.WAdd(Select(L, m), c.WLit(1)))))
}

func (fv *FuncVer) mapDelete(st *State, m *Term, mt *types.Map, k *Term) {
	c := fv.ctx
	fv.nilMapFacts(st, mt)
	hk, _, lk, hs, _, ls := fv.mapHeaps(st, mt)
	H, L := fv.heap(st, hk, hs), fv.heap(st, lk, ls)
	had := Select(Select(H, m), k)
	// deleting from a nil map is a no-op; the nil map stays empty because had is false there
	st.heaps[hk] = c.Name("mh", Ite(Eq(m, IntLit(0)), H, Store(H, m, Store(Select(H, m), k, False))))
	st.heaps[lk] = c.Name("ml", Store(L, m, Ite(had, c.WSub(Select(L, m), c.WLit(1)), Select(L, m))))
}

func (fv *FuncVer) rangeInit(st *State, x *ssa.Range) {
	switch u := x.X.Type().Underlying().(type) {
	case *types.Map:
		m := fv.tval(st, x.X)
		fv.nilMapFacts(st, u)
		ks := fv.ctx.SortOf(u.Key())
		st.top().regs[x] = &MapIter{MapRef: m, MapType: u, Visited: ConstArray(fv.ctx.ArraySort(ks, SBool), False), Start: fv.mapHas(st, m, u)}
	default:
		panic(unsupported("range over " + x.X.Type().String()))
	}
}

func (fv *FuncVer) next(st *State, x *ssa.Next) {
	c := fv.ctx
	it, ok := fv.val(st, x.Iter).(*MapIter)
	if !ok || x.IsString {
		panic(unsupported("next on non-map iterator"))
	}
	mt := it.MapType
	has := fv.mapHas(st, it.MapRef, mt)
	okv := c.Fresh("iter_ok", SBool)
	k := fv.freshVal(st, "iter_k", mt.Key())
	// the visited set lives in the iterator value; inside an invariant-cut loop it is havocked
	// through the ghost cell registered for the Range instruction
	vis := fv.iterVisited(st, x.Iter.(*ssa.Range), it)
	st.assume(Implies(okv, And(Select(has, k), Not(Select(vis, k)))))
	kv := BoundVar("kq", c.SortOf(mt.Key()))
	st.assume(Implies(Not(okv), Forall([]*Term{kv}, Implies(And(Select(it.Start, kv), Select(has, kv)), Select(vis, kv)), Select(vis, kv))))
	nvis := Ite(okv, Store(vis, k, True), vis)
	fv.setIterVisited(st, x.Iter.(*ssa.Range), nvis)
	v := Select(fv.mapVals(st, it.MapRef, mt), k)
	st.assume(fv.wf(st, v, mt.Elem(), 1))
	st.top().regs[x] = &Tuple{[]Val{okv, k, v}}
}

func (fv *FuncVer) iterKey(st *State, r *ssa.Range) string {
	return fmt.Sprintf("iter:%d:%s:%s", st.top().id, r.Parent().Name(), r.Name())
}

func (fv *FuncVer) iterVisited(st *State, r *ssa.Range, it *MapIter) *Term {
	if v, ok := st.globals[fv.iterKey(st, r)]; ok {
		return v
	}
	return it.Visited
}

func (fv *FuncVer) setIterVisited(st *State, r *ssa.Range, v *Term) {
	st.globals[fv.iterKey(st, r)] = v
}

// ---------------------------------------------------------------------------
// interfaces and conversions

func (fv *FuncVer) typeTag(t types.Type) *Term {
	return fv.ctx.Func("typetag_"+sanitize(typeKey(t)), SInt)
}

func (fv *FuncVer) makeIface(st *State, v Val, t types.Type) *Term {
	c := fv.ctx
	if _, isIface := t.Underlying().(*types.Interface); isIface {
		return fv.term(v)
	}
	var payload *Term
	if l, ok := v.(*Loc); ok && (len(l.Path) > 0 || l.Kind == rootCell) {
		// interior pointer boxed in an interface: keep an opaque token
		payload = c.Fresh("boxedptr", SInt)
	} else {
		payload = fv.term(v)
	}
	name := "mkiface_" + sanitize(typeKey(t))
	r := c.Func(name, c.SIface, payload)
	if fv.ifaceTypes == nil {
		fv.ifaceTypes = map[string]types.Type{}
	}
	fv.ifaceTypes[r.Op] = t
	st.assume(Not(Eq(r, c.NilIface())))
	st.assume(Eq(c.Func("iface_type", SInt, r), fv.typeTag(t)))
	st.assume(Eq(c.Func("unbox_"+sanitize(typeKey(t)), payload.Sort, r), payload))
	return r
}

func (fv *FuncVer) typeAssert(st *State, x *ssa.TypeAssert) {
	c := fv.ctx
	iv := fv.tval(st, x.X)
	at := x.AssertedType
	if _, isIface := at.Underlying().(*types.Interface); isIface {
		// interface-to-interface: succeeds iff non-nil and implements (unknown)
		ok := c.Func("implements_"+sanitize(typeKey(at)), SBool, iv)
		st.assume(Implies(ok, Not(Eq(iv, c.NilIface()))))
		if x.CommaOk {
			st.top().regs[x] = &Tuple{[]Val{Ite(ok, iv, c.NilIface()), ok}}
		} else {
			if fv.nopanic {
				fv.oblige(st, "typeassert", fv.anchorAt(x.Pos(), "assert"), x.Pos(), ok, "type assertion succeeds")
			}
			st.assume(ok)
			fv.setReg(st, x, iv)
		}
		return
	}
	ok := And(Not(Eq(iv, c.NilIface())), Eq(c.Func("iface_type", SInt, iv), fv.typeTag(at)))
	val := c.Func("unbox_"+sanitize(typeKey(at)), c.SortOf(at), iv)
	if x.CommaOk {
		okc := c.Name("taok", ok)
		v := Ite(okc, val, c.Zero(at))
		st.assume(Implies(okc, fv.wf(st, val, at, 1)))
		st.top().regs[x] = &Tuple{[]Val{c.Name("ta", v), okc}}
	} else {
		if fv.nopanic {
			fv.oblige(st, "typeassert", fv.anchorAt(x.Pos(), "assert"), x.Pos(), ok, "type assertion succeeds")
		}
		st.assume(ok)
		st.assume(fv.wf(st, val, at, 1))
		fv.setReg(st, x, val)
	}
}

func (fv *FuncVer) changeType(st *State, v Val, from, to types.Type) Val {
	t, ok := v.(*Term)
	if !ok {
		return v
	}
	fs, ts := fv.ctx.SortOf(from), fv.ctx.SortOf(to)
	if fs == ts {
		return t
	}
	// structurally identical datatypes with different names
	if fs.DT != nil && ts.DT != nil && len(fs.DT.Fields) == len(ts.DT.Fields) {
		args := make([]*Term, len(fs.DT.Fields))
		fst, tst := from.Underlying().(*types.Struct), to.Underlying().(*types.Struct)
		for i := range args {
			a := fv.changeType(st, Field(t, i), fst.Field(i).Type(), tst.Field(i).Type())
			args[i] = a.(*Term)
		}
		return MkDT(ts, args...)
	}
	return fv.ctx.Func("cast_"+fs.Name+"_to_"+ts.Name, ts, t)
}

func (fv *FuncVer) convert(st *State, x *ssa.Convert) *Term {
	c := fv.ctx
	from, to := x.X.Type(), x.Type()
	v := fv.val(st, x.X)
	fb, tb := basicOf(from), basicOf(to)
	switch {
	case fb != nil && tb != nil && fb.Info()&types.IsInteger != 0 && tb.Info()&types.IsInteger != 0:
		return c.ConvertInt(fv.term(v), from, to)
	case tb != nil && tb.Info()&types.IsString != 0:
		if _, ok := from.Underlying().(*types.Slice); ok {
			return fv.bytesToString(st, fv.term(v), from.Underlying().(*types.Slice).Elem())
		}
		if fb != nil && fb.Info()&types.IsString != 0 {
			return fv.term(v)
		}
		return c.Func("str.fromint_", c.SStr, fv.term(v))
	case fb != nil && fb.Info()&types.IsString != 0:
		if sl, ok := to.Underlying().(*types.Slice); ok {
			return fv.stringToBytes(st, fv.term(v), sl.Elem())
		}
	case fb != nil && tb != nil && fb.Kind() == types.UnsafePointer || tb != nil && tb.Kind() == types.UnsafePointer:
		panic(unsupported("unsafe pointer conversion"))
	}
	ft, tt := fv.ctx.SortOf(from), fv.ctx.SortOf(to)
	if ft == tt {
		return fv.term(v)
	}
	return c.Func("conv_"+ft.Name+"_to_"+tt.Name, tt, fv.term(v))
}

// bytesToString: the string is a function of the bytes in [off, off+len).
func (fv *FuncVer) bytesToString(st *State, sl *Term, elem types.Type) *Term {
	c := fv.ctx
	key, hs := fv.elemsKey(elem)
	arr := Select(fv.heap(st, key, hs), Field(sl, 0))
	arr = fv.canonBytes(st, arr)
	r := c.Func("str.frombytes_", c.SStr, arr, Field(sl, 1), Field(sl, 2))
	st.assume(Eq(c.StrLen(r), Field(sl, 2)))
	return r
}

// canonBytes: if the backing array is known to be bytes-of(string) return that term unchanged.
func (fv *FuncVer) canonBytes(st *State, arr *Term) *Term { return arr }

func (fv *FuncVer) stringToBytes(st *State, s *Term, elem types.Type) *Term {
	c := fv.ctx
	key, hs := fv.elemsKey(elem)
	r := fv.newRef(st)
	bytes := c.Func("str.tobytes_", hs.Elem, s)
	st.heaps[key] = Store(fv.heap(st, key, hs), r, bytes)
	ln := c.StrLen(s)
	// round trip: string([]byte(s)) == s
	st.assume(Eq(c.Func("str.frombytes_", c.SStr, bytes, c.WLit(0), ln), s))
	return MkDT(c.SSlice, r, c.WLit(0), ln, ln)
}

// ---------------------------------------------------------------------------
// source anchors

func (fv *FuncVer) anchorAt(pos token.Pos, fallback string) string {
	if !pos.IsValid() {
		return fallback
	}
	if s := fv.eng.exprTextAt(pos); s != "" {
		return s
	}
	return fallback
}

// sorted obligation names with ordinals
func (fv *FuncVer) finalizeNames() {
	groups := map[string][]*Obligation{}
	for _, k := range fv.oblOrder {
		ob := fv.obls[k]
		g := ob.Kind + ":" + ob.Anchor
		groups[g] = append(groups[g], ob)
	}
	for _, k := range fv.oblOrder {
		ob := fv.obls[k]
		ob.Name = fmt.Sprintf("%s/%s/%s", fv.prop, ob.Func, strings.TrimSuffix(ob.Kind+":"+ob.Anchor, ":"))
	}
	_ = sort.Strings
	_ = ast.Print
}


// skolemize replaces the universally quantified variables of a goal by fresh
// constants (validity preserving), so that the engine-side instantiation and
// the solvers' E-matching see ground terms.
func (fv *FuncVer) skolemize(g *Term) *Term {
	switch {
	case g.Q != nil && g.Q.Forall:
		bind := map[*Term]*Term{}
		for _, v := range g.Q.Vars {
			bind[v] = fv.ctx.Fresh("sk_"+v.Op, v.Sort)
		}
		return fv.skolemize(substTerm(g.Q.Body, bind, map[*Term]*Term{}))
	case g.Op == "and":
		args := make([]*Term, len(g.Args))
		for i, a := range g.Args {
			args[i] = fv.skolemize(a)
		}
		return And(args...)
	case g.Op == "=>" && len(g.Args) == 2:
		return Implies(g.Args[0], fv.skolemize(g.Args[1]))
	}
	return g
}


func (fv *FuncVer) curPos(st *State) token.Pos {
	if len(st.frames) == 0 {
		return token.NoPos
	}
	f := st.top()
	if f.block != nil && f.ip < len(f.block.Instrs) {
		return f.block.Instrs[f.ip].Pos()
	}
	return token.NoPos
}
