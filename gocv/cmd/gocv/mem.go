package main

// Symbolic values, locations and the memory model (DESIGN 2.4, simplified):
//   * local cells (non-escaping Alloc): strong updates, may hold structured values
//   * heap objects: one SMT array per Go type, Ref(Int) -> value ("H:<type>")
//   * slice/array backing stores: per element type, Ref -> (Array W elem) ("E:<type>")
//   * maps: per map type presence/value/len arrays ("MH:", "MV:", "ML:")
// A pointer is either an SMT Int (reference to a whole heap object) or a
// structured *Loc (root + field/index path) that never leaves the executor.

import (
	"fmt"
	"go/types"
	"strings"

	"golang.org/x/tools/go/ssa"
)

type Val interface{}

type Tuple struct{ Vals []Val }

type Closure struct {
	Fn       *ssa.Function
	Bindings []Val
}

type FuncRef struct{ Fn *ssa.Function }

type BuiltinRef struct{ B *ssa.Builtin }

type MapIter struct {
	MapRef  *Term
	MapType *types.Map
	Visited *Term // (Array K Bool)
	Start   *Term // presence array at loop start
	IsStr   bool
}

type rootKind int

const (
	rootCell rootKind = iota
	rootHeap
	rootElems
	rootGlobal
)

type cellKey struct {
	frame int
	alloc *ssa.Alloc
}

type Loc struct {
	Kind   rootKind
	Cell   cellKey
	Ref    *Term      // heap / elems base
	Typ    types.Type // type of the root object (heap: object type; elems: element type)
	Global string
	Path   []Sel
	ElTyp  types.Type // type of the value at this location
	// element of an immutable package-level slice: name and index relative to the slice start
	GlobalSlice string
	RelIndex    *Term
}

type Sel struct {
	Field int
	Index *Term // nil for field selectors
	Typ   types.Type // type of the container being selected into
}

func (l *Loc) String() string {
	var sb strings.Builder
	switch l.Kind {
	case rootCell:
		fmt.Fprintf(&sb, "cell(%s#%d)", l.Cell.alloc.Comment, l.Cell.frame)
	case rootHeap:
		fmt.Fprintf(&sb, "heap(%s@%s)", typeKey(l.Typ), l.Ref)
	case rootElems:
		fmt.Fprintf(&sb, "elems(%s@%s)", typeKey(l.Typ), l.Ref)
	case rootGlobal:
		fmt.Fprintf(&sb, "global(%s)", l.Global)
	}
	for _, s := range l.Path {
		if s.Index != nil {
			fmt.Fprintf(&sb, "[%s]", s.Index)
		} else {
			fmt.Fprintf(&sb, ".%d", s.Field)
		}
	}
	return sb.String()
}

func (l *Loc) extend(s Sel, elTyp types.Type) *Loc {
	nl := *l
	nl.Path = append(append([]Sel{}, l.Path...), s)
	nl.ElTyp = elTyp
	return &nl
}

type Event struct {
	Name    string
	Args    []*Term
	Results []*Term
	Site    string
	ArgTypes, ResTypes []types.Type
	Maybe   bool // marker: may have happened in an earlier iteration of a loop
	Cond    int // index into pc at the time (events are path specific anyway)
}

type activeLoop struct {
	frame  int
	header *ssa.BasicBlock
	iters  int
	spec   *LoopSpec
	key    string
	hks    []string // heap keys the loop may write (implicit frame invariant)
	entry  *State // state on entry to the loop, before the havoc (loopentry(...) in invariants)
}

type Frame struct {
	id       int
	fn       *ssa.Function
	regs     map[ssa.Value]Val
	block    *ssa.BasicBlock
	prev     *ssa.BasicBlock
	ip       int
	defers   []deferred
	bindings []Val
	call     ssa.Instruction // call site in the caller (nil for top)
	entry    *State          // snapshot at entry of this frame (for old() in inlined callee specs) - unused for now
	panicked bool
}

type deferred struct {
	call *ssa.CallCommon
	fn   Val
	args []Val
	site ssa.Instruction
}

type State struct {
	cells    map[cellKey]Val
	heaps    map[string]*Term
	globals  map[string]*Term
	nextRef  *Term
	pc       []*Term
	pcSet    map[string]bool
	events   []Event
	frames   []*Frame
	old      *State
	loops    []activeLoop
	trace    []string
	nframes  *int
	readonly map[string]bool
	notes    []string
	borrowed []borrowedMem
}

type borrowedMem struct {
	base, off, ln *Term
	what          string
	key           string // elems heap key of the borrowed slice
}

func (st *State) clone() *State {
	n := &State{
		cells:    make(map[cellKey]Val, len(st.cells)),
		heaps:    make(map[string]*Term, len(st.heaps)),
		globals:  make(map[string]*Term, len(st.globals)),
		nextRef:  st.nextRef,
		pc:       append([]*Term(nil), st.pc...),
		pcSet:    make(map[string]bool, len(st.pcSet)),
		events:   append([]Event(nil), st.events...),
		old:      st.old,
		loops:    append([]activeLoop(nil), st.loops...),
		trace:    append([]string(nil), st.trace...),
		nframes:  st.nframes,
		readonly: st.readonly,
		notes:    st.notes,
		borrowed: st.borrowed,
	}
	for k, v := range st.cells {
		n.cells[k] = v
	}
	for k, v := range st.heaps {
		n.heaps[k] = v
	}
	for k, v := range st.globals {
		n.globals[k] = v
	}
	for k := range st.pcSet {
		n.pcSet[k] = true
	}
	for _, f := range st.frames {
		nf := *f
		nf.regs = make(map[ssa.Value]Val, len(f.regs))
		for k, v := range f.regs {
			nf.regs[k] = v
		}
		nf.defers = append([]deferred(nil), f.defers...)
		n.frames = append(n.frames, &nf)
	}
	return n
}

func (st *State) top() *Frame { return st.frames[len(st.frames)-1] }

func (st *State) assume(t *Term) {
	if t == nil || (t.IsLit && t.Bool) {
		return
	}
	if t.Op == "and" {
		for _, a := range t.Args {
			st.assume(a)
		}
		return
	}
	s := t.String()
	if st.pcSet[s] {
		return
	}
	st.pcSet[s] = true
	st.pc = append(st.pc, t)
}

// ---------------------------------------------------------------------------

func (fv *FuncVer) heapKey(t types.Type) (string, *Sort) {
	t = types.Unalias(t)
	if a, ok := t.Underlying().(*types.Array); ok {
		if _, opaque := isByteArray(t); !(opaque && a.Len() >= fv.ctx.opaqueMin) {
			return fv.elemsKey(a.Elem())
		}
	}
	s := fv.ctx.SortOf(t)
	k := "H:" + typeKey(t)
	if n, ok := isByteArray(t); ok && n >= fv.ctx.opaqueMin {
		k = "H:" + s.Name
	}
	hs := fv.ctx.ArraySort(SInt, s)
	fv.heapSorts[k] = hs
	fv.heapTypes[k] = t
	return k, hs
}

func (fv *FuncVer) elemsKey(elem types.Type) (string, *Sort) {
	es := fv.ctx.SortOf(elem)
	k := "E:" + typeKey(types.Unalias(elem))
	hs := fv.ctx.ArraySort(SInt, fv.ctx.ArraySort(fv.ctx.W, es))
	fv.heapSorts[k] = hs
	fv.heapTypes[k] = elem
	return k, hs
}

func (fv *FuncVer) heap(st *State, key string, s *Sort) *Term {
	if h, ok := st.heaps[key]; ok {
		return h
	}
	// first touch: the initial heap is a shared symbolic constant so that the
	// entry snapshot and every path agree on it
	h := fv.ctx.Const("heap0_"+sanitize(key), s)
	st.heaps[key] = h
	if st.old != nil && st.old.nextRef != nil {
		if ax := fv.heapWF(key, h, st.old.nextRef); ax != nil {
			st.assume(ax)
		}
	}
	if st.old != nil && st.old != st {
		if _, ok := st.old.heaps[key]; !ok {
			st.old.heaps[key] = h
		}
	}
	return h
}

func (fv *FuncVer) newRef(st *State) *Term {
	r := st.nextRef
	st.nextRef = IAdd(st.nextRef, IntLit(1))
	return r
}

// rootValue reads the whole object a location is rooted in.
func (fv *FuncVer) rootValue(st *State, l *Loc) Val {
	switch l.Kind {
	case rootCell:
		v, ok := st.cells[l.Cell]
		if !ok {
			panic(unsupported("read of unknown cell " + l.Cell.alloc.Comment))
		}
		return v
	case rootHeap:
		key, s := fv.heapKey(l.Typ)
		return Select(fv.heap(st, key, s), l.Ref)
	case rootElems:
		key, s := fv.elemsKey(l.Typ)
		return Select(fv.heap(st, key, s), l.Ref)
	case rootGlobal:
		return fv.globalValue(st, l.Global, l.Typ)
	}
	panic("rootValue")
}

func (fv *FuncVer) setRootValue(st *State, l *Loc, v Val) {
	switch l.Kind {
	case rootCell:
		st.cells[l.Cell] = v
	case rootHeap:
		key, s := fv.heapKey(l.Typ)
		st.heaps[key] = fv.ctx.Name("h", Store(fv.heap(st, key, s), l.Ref, fv.term(v)))
	case rootElems:
		if st.readonly[l.Ref.String()] {
			panic(unsupported("store through a read-only byte view of an opaque array"))
		}
		for _, b := range st.borrowed {
			if k, _ := fv.elemsKey(l.Typ); k != b.key {
				continue // other element type: cannot be the same backing array
			}
			// a store into the live part [off, off+len) of memory borrowed from a callee
			goal := Not(Eq(l.Ref, b.base))
			if len(l.Path) > 0 && l.Path[0].Index != nil {
				idx := l.Path[0].Index
				goal = Or(goal, fv.ctx.WLt(idx, b.off), fv.ctx.WLe(fv.ctx.WAdd(b.off, b.ln), idx))
			}
			fv.oblige(st, "borrowed-write", fv.anchorAt(fv.curPos(st), "store"), fv.curPos(st), goal, "no store into memory borrowed from "+b.what)
		}
		key, s := fv.elemsKey(l.Typ)
		st.heaps[key] = fv.ctx.Name("h", Store(fv.heap(st, key, s), l.Ref, fv.term(v)))
	case rootGlobal:
		st.globals[l.Global] = fv.term(v)
	}
}

func (fv *FuncVer) globalValue(st *State, name string, t types.Type) *Term {
	if v, ok := st.globals[name]; ok {
		return v
	}
	v := fv.ctx.Const("g0_"+sanitize(name), fv.ctx.SortOf(t))
	st.globals[name] = v
	if st.old != nil && st.old != st {
		if _, ok := st.old.globals[name]; !ok {
			st.old.globals[name] = v
		}
	}
	return v
}

type unsupported string

func (u unsupported) Error() string { return string(u) }

func (fv *FuncVer) term(v Val) *Term {
	switch x := v.(type) {
	case *Term:
		return x
	case *Loc:
		if len(x.Path) == 0 && x.Kind == rootHeap {
			return x.Ref
		}
		if len(x.Path) == 0 && x.Kind == rootElems {
			return x.Ref
		}
		panic(unsupported("interior or cell pointer escapes into SMT value: " + x.String()))
	case *FuncRef:
		return fv.ctx.Func("fn_"+x.Fn.String(), SInt)
	case *Closure:
		// closures as first-class values: an opaque reference
		return fv.ctx.Fresh("closure", SInt)
	case *BuiltinRef:
		return fv.ctx.Func("builtin_"+x.B.Name(), SInt)
	case nil:
		panic(unsupported("nil value"))
	}
	panic(unsupported(fmt.Sprintf("cannot convert %T to term", v)))
}

// get navigates a path inside a value.
func (fv *FuncVer) getPath(v Val, path []Sel) Val {
	if len(path) == 0 {
		return v
	}
	t, ok := v.(*Term)
	if !ok {
		panic(unsupported(fmt.Sprintf("path into non-term value %T", v)))
	}
	for _, s := range path {
		if s.Index != nil {
			t = Select(t, s.Index)
		} else {
			t = Field(t, s.Field)
		}
	}
	return t
}

func (fv *FuncVer) setPath(v Val, path []Sel, nv Val) Val {
	if len(path) == 0 {
		return nv
	}
	t, ok := v.(*Term)
	if !ok {
		panic(unsupported(fmt.Sprintf("path into non-term value %T", v)))
	}
	s := path[0]
	if s.Index != nil {
		inner := fv.setPath(Select(t, s.Index), path[1:], nv)
		return Store(t, s.Index, fv.term(inner))
	}
	inner := fv.setPath(Field(t, s.Field), path[1:], nv)
	return WithField(t, s.Field, fv.term(inner))
}

func (fv *FuncVer) load(st *State, l *Loc) Val {
	// elements of an immutable package-level slice are a function of the index
	if l.Kind == rootElems && len(l.Path) >= 1 && l.Path[0].Index != nil && l.GlobalSlice != "" {
		v := fv.ctx.Func("gelem_"+l.GlobalSlice, fv.ctx.SortOf(l.Typ), l.RelIndex)
		return fv.getPath(v, l.Path[1:])
	}
	return fv.getPath(fv.rootValue(st, l), l.Path)
}

// immutableGlobalSlice: the name of the immutable package-level variable a slice value was loaded from.
func (fv *FuncVer) immutableGlobalSlice(sl *Term) string {
	r := resolve(sl)
	if r.Sym != nil && strings.HasPrefix(r.Sym.Name, "g0_") && len(r.Args) == 0 {
		name := strings.TrimPrefix(r.Sym.Name, "g0_")
		if fv.eng.immutableSan[name] {
			return name
		}
	}
	return ""
}

func (fv *FuncVer) store(st *State, l *Loc, v Val) {
	if len(l.Path) == 0 {
		fv.setRootValue(st, l, v)
		return
	}
	root := fv.rootValue(st, l)
	nv := fv.setPath(root, l.Path, v)
	if t, ok := nv.(*Term); ok && l.Kind == rootCell {
		nv = fv.ctx.Name("c_"+l.Cell.alloc.Comment, t)
	}
	fv.setRootValue(st, l, nv)
}

// locOf turns a pointer value into a location of an object of type elem.
func (fv *FuncVer) locOf(v Val, elem types.Type) *Loc {
	switch x := v.(type) {
	case *Loc:
		return x
	case *Term:
		return &Loc{Kind: rootHeap, Ref: x, Typ: elem, ElTyp: elem}
	}
	panic(unsupported(fmt.Sprintf("dereference of %T", v)))
}

// ---------------------------------------------------------------------------
// well-formedness facts about freshly materialised values

func (fv *FuncVer) wf(st *State, v *Term, t types.Type, depth int) *Term {
	return fv.wfBound(st.nextRef, v, t, depth)
}

// hasRefs: values of type t contain references (pointers, slices, maps) within `depth` struct levels.
func hasRefs(t types.Type, depth int) bool {
	switch u := types.Unalias(t).Underlying().(type) {
	case *types.Pointer, *types.Map, *types.Chan, *types.Slice:
		return true
	case *types.Struct:
		if depth <= 0 {
			return false
		}
		for i := 0; i < u.NumFields(); i++ {
			if hasRefs(u.Field(i).Type(), depth-1) {
				return true
			}
		}
	}
	return false
}

// heapWF: every reference held anywhere in the store `key` is below `bound` (an allocation
// counter value not smaller than the one at which the store last changed). Lets later
// allocations be told apart from everything the store holds.
func (fv *FuncVer) heapWF(key string, h, bound *Term) *Term {
	t, ok := fv.heapTypes[key]
	if !ok || h == nil || !hasRefs(t, 2) {
		return nil
	}
	c := fv.ctx
	r := BoundVar("r_q", SInt)
	switch {
	case strings.HasPrefix(key, "H:"):
		if h.Sort.Elem == nil || h.Sort.Elem != c.SortOf(t) {
			return nil
		}
		v := Select(h, r)
		return Forall([]*Term{r}, fv.wfBound(bound, v, t, 2), v)
	case strings.HasPrefix(key, "E:"):
		if h.Sort.Elem == nil || h.Sort.Elem.Elem == nil || h.Sort.Elem.Elem != c.SortOf(t) {
			return nil
		}
		j := BoundVar("j_q", c.W)
		v := Select(Select(h, r), j)
		return Forall([]*Term{r, j}, fv.wfBound(bound, v, t, 2), v)
	case strings.HasPrefix(key, "MV:"):
		// values stored in maps (e.g. a map of slices): the same bound
		ks := fv.mapKeySorts[key]
		if ks == nil || h.Sort.Elem == nil || h.Sort.Elem.Elem == nil || h.Sort.Elem.Elem != c.SortOf(t) {
			return nil
		}
		k := BoundVar("k_q", ks)
		v := Select(Select(h, r), k)
		return Forall([]*Term{r, k}, fv.wfBound(bound, v, t, 2), v)
	}
	return nil
}

func (fv *FuncVer) wfBound(bound *Term, v *Term, t types.Type, depth int) *Term {
	c := fv.ctx
	t = types.Unalias(t)
	switch u := t.Underlying().(type) {
	case *types.Basic:
		if u.Info()&types.IsInteger != 0 {
			return c.InRange(v, t)
		}
		if u.Info()&types.IsString != 0 {
			return c.WLe(c.WLit(0), c.StrLen(v))
		}
	case *types.Pointer, *types.Map, *types.Chan:
		return And(ILe(IntLit(0), v), ILt(v, bound))
	case *types.Slice:
		base, off, ln, cp := Field(v, 0), Field(v, 1), Field(v, 2), Field(v, 3)
		return And(ILe(IntLit(0), base), ILt(base, bound),
			c.WLe(c.WLit(0), off), c.WLe(c.WLit(0), ln), c.WLe(ln, cp),
			Implies(Eq(base, IntLit(0)), And(Eq(ln, c.WLit(0)), Eq(cp, c.WLit(0)))),
			fv.sliceBound(off, cp))
	case *types.Struct:
		if depth <= 0 || v.Sort.DT == nil {
			return True
		}
		var fs []*Term
		for i := 0; i < u.NumFields(); i++ {
			ft := u.Field(i).Type()
			switch types.Unalias(ft).Underlying().(type) {
			case *types.Struct:
				if depth <= 1 {
					continue
				}
			}
			fs = append(fs, fv.wfBound(bound, Field(v, i), ft, depth-1))
		}
		return And(fs...)
	}
	return True
}

// sliceBound keeps offset+cap within the signed word range (no wrap in index arithmetic).
func (fv *FuncVer) sliceBound(off, cp *Term) *Term {
	if fv.ctx.BV {
		// off + cap does not overflow and stays non-negative as a signed word
		s := fv.ctx.WAdd(off, cp)
		return And(fv.ctx.WLe(off, s), fv.ctx.WLe(fv.ctx.WLit(0), s))
	}
	return ILe(IAdd(off, cp), BigLit(pow2(60), SInt)) // no slice has 2^60 elements: sums of a few lengths do not overflow
}

func (fv *FuncVer) freshVal(st *State, name string, t types.Type) *Term {
	v := fv.ctx.Fresh(name, fv.ctx.SortOf(t))
	st.assume(fv.wf(st, v, t, 2))
	return v
}
