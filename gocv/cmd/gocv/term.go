package main

// SMT terms with light constant folding. Terms are immutable DAG nodes; the
// printed form is cached. Large values get named through define-fun symbols so
// that printed queries stay small (see Ctx.Name).

import (
	"fmt"
	"math/big"
	"sort"
	"strings"
)

type Sort struct {
	Name string // SMT-LIB spelling
	// datatype info (nil for builtin / uninterpreted sorts)
	DT *Datatype
	// array info
	Idx, Elem *Sort
	BVWidth   int
	sym       *Sym // declaring symbol (datatype / declare-sort), nil for builtin
}

type Datatype struct {
	Ctor   string
	Fields []DTField
}

type DTField struct {
	Name string // accessor symbol
	Sort *Sort
}

func (s *Sort) String() string { return s.Name }

var (
	SBool = &Sort{Name: "Bool"}
	SInt  = &Sort{Name: "Int"}
)

// Sym is a declared symbol: a constant, function, sort or definition.
type Sym struct {
	Name string
	Decl string // full SMT-LIB command
	Deps []*Sym
	Def  *Term // for define-fun constants: the body (looked through by simplifiers)
	id   int
	// Lower: for a fresh allocation counter, a term it is known (assumed on every path that
	// mentions the symbol) to be >= of. Lets the simplifier tell references apart.
	Lower *Term
}

// intNorm writes an integer term as sym + off (sym == nil for a literal).
func intNorm(t *Term) (*Sym, *big.Int, bool) {
	t = resolve(t)
	switch {
	case t.IsLit && t.Int != nil:
		return nil, t.Int, true
	case t.Sym != nil && len(t.Args) == 0:
		return t.Sym, new(big.Int), true
	case t.Op == "+" && len(t.Args) == 2:
		s1, o1, ok1 := intNorm(t.Args[0])
		s2, o2, ok2 := intNorm(t.Args[1])
		if !ok1 || !ok2 || (s1 != nil && s2 != nil) {
			return nil, nil, false
		}
		if s1 == nil {
			s1 = s2
		}
		return s1, new(big.Int).Add(o1, o2), true
	}
	return nil, nil, false
}

// intGreater: a > b follows from the recorded lower bounds of allocation counters.
func intGreater(a, b *Term) bool {
	sa, oa, ok := intNorm(a)
	if !ok {
		return false
	}
	sb, ob, ok := intNorm(b)
	if !ok {
		return false
	}
	acc := new(big.Int).Set(oa)
	for i := 0; i < 64; i++ {
		if sa == sb {
			return acc.Cmp(ob) > 0
		}
		if sa == nil || sa.Lower == nil {
			return false
		}
		s, o, ok := intNorm(sa.Lower)
		if !ok {
			return false
		}
		sa = s
		acc.Add(acc, o)
	}
	return false
}

func intDistinct(a, b *Term) bool {
	if a.Sort != SInt || b.Sort != SInt {
		return false
	}
	return intGreater(a, b) || intGreater(b, a)
}

type Term struct {
	Op    string // function symbol / builtin op; "" for literals
	Args  []*Term
	Sort  *Sort
	Sym   *Sym // declared symbol this node refers to (constants, uninterpreted functions)
	IsLit bool
	Int   *big.Int // integer / bitvector literal
	Bool  bool
	Q     *Quant // quantifier node
	str   string
}

type Quant struct {
	Forall bool
	Vars   []*Term // bound variable constants (Sym == nil, Op = name)
	Body   *Term
	Pats   []*Term
}

func (t *Term) String() string {
	if t.str != "" {
		return t.str
	}
	switch {
	case t.Q != nil:
		var sb strings.Builder
		if t.Q.Forall {
			sb.WriteString("(forall (")
		} else {
			sb.WriteString("(exists (")
		}
		for i, v := range t.Q.Vars {
			if i > 0 {
				sb.WriteByte(' ')
			}
			fmt.Fprintf(&sb, "(%s %s)", v.Op, v.Sort.Name)
		}
		sb.WriteString(") ")
		if len(t.Q.Pats) > 0 {
			sb.WriteString("(! ")
			sb.WriteString(t.Q.Body.String())
			sb.WriteString(" :pattern (")
			for i, p := range t.Q.Pats {
				if i > 0 {
					sb.WriteByte(' ')
				}
				sb.WriteString(p.String())
			}
			sb.WriteString("))")
		} else {
			sb.WriteString(t.Q.Body.String())
		}
		sb.WriteString(")")
		t.str = sb.String()
	case t.IsLit && t.Sort == SBool:
		if t.Bool {
			t.str = "true"
		} else {
			t.str = "false"
		}
	case t.IsLit && t.Sort.BVWidth > 0:
		v := new(big.Int).Set(t.Int)
		if v.Sign() < 0 {
			v.Add(v, new(big.Int).Lsh(big.NewInt(1), uint(t.Sort.BVWidth)))
		}
		t.str = fmt.Sprintf("(_ bv%s %d)", v.String(), t.Sort.BVWidth)
	case t.IsLit:
		if t.Int.Sign() < 0 {
			t.str = "(- " + new(big.Int).Neg(t.Int).String() + ")"
		} else {
			t.str = t.Int.String()
		}
	case len(t.Args) == 0:
		t.str = t.Op
	default:
		var sb strings.Builder
		sb.WriteByte('(')
		sb.WriteString(t.Op)
		for _, a := range t.Args {
			sb.WriteByte(' ')
			sb.WriteString(a.String())
		}
		sb.WriteByte(')')
		t.str = sb.String()
	}
	return t.str
}

var (
	True  = &Term{IsLit: true, Bool: true, Sort: SBool}
	False = &Term{IsLit: true, Bool: false, Sort: SBool}
)

func BoolLit(b bool) *Term {
	if b {
		return True
	}
	return False
}

func IntLit(v int64) *Term { return &Term{IsLit: true, Int: big.NewInt(v), Sort: SInt} }
func BigLit(v *big.Int, s *Sort) *Term {
	return &Term{IsLit: true, Int: new(big.Int).Set(v), Sort: s}
}

// look through define-fun names
func resolve(t *Term) *Term {
	for t.Sym != nil && t.Sym.Def != nil && len(t.Args) == 0 {
		t = t.Sym.Def
	}
	return t
}

func sameTerm(a, b *Term) bool {
	if a == b {
		return true
	}
	return a.Sort == b.Sort && a.String() == b.String()
}

func mk(op string, s *Sort, args ...*Term) *Term {
	return &Term{Op: op, Args: args, Sort: s}
}

func Not(a *Term) *Term {
	if a.IsLit {
		return BoolLit(!a.Bool)
	}
	if a.Op == "not" {
		return a.Args[0]
	}
	return mk("not", SBool, a)
}

func And(as ...*Term) *Term {
	var out []*Term
	for _, a := range as {
		if a == nil {
			continue
		}
		if a.IsLit {
			if !a.Bool {
				return False
			}
			continue
		}
		if a.Op == "and" {
			out = append(out, a.Args...)
		} else {
			out = append(out, a)
		}
	}
	switch len(out) {
	case 0:
		return True
	case 1:
		return out[0]
	}
	return mk("and", SBool, out...)
}

func Or(as ...*Term) *Term {
	var out []*Term
	for _, a := range as {
		if a.IsLit {
			if a.Bool {
				return True
			}
			continue
		}
		if a.Op == "or" {
			out = append(out, a.Args...)
		} else {
			out = append(out, a)
		}
	}
	switch len(out) {
	case 0:
		return False
	case 1:
		return out[0]
	}
	return mk("or", SBool, out...)
}

func Implies(a, b *Term) *Term {
	if a.IsLit {
		if a.Bool {
			return b
		}
		return True
	}
	if b.IsLit && b.Bool {
		return True
	}
	return mk("=>", SBool, a, b)
}

func Ite(c, a, b *Term) *Term {
	if c.IsLit {
		if c.Bool {
			return a
		}
		return b
	}
	if sameTerm(a, b) {
		return a
	}
	if a.Sort == SBool && a.IsLit && b.IsLit {
		if a.Bool && !b.Bool {
			return c
		}
		if !a.Bool && b.Bool {
			return Not(c)
		}
	}
	return mk("ite", a.Sort, c, a, b)
}

func Eq(a, b *Term) *Term {
	if a.Sort != b.Sort {
		panic(fmt.Sprintf("Eq: sort mismatch %s vs %s (%s / %s)", a.Sort, b.Sort, a, b))
	}
	ra, rb := resolve(a), resolve(b)
	if ra.IsLit && rb.IsLit {
		if a.Sort == SBool {
			return BoolLit(ra.Bool == rb.Bool)
		}
		return BoolLit(ra.Int.Cmp(rb.Int) == 0)
	}
	if sameTerm(a, b) {
		return True
	}
	if a.Sort == SBool {
		if ra.IsLit {
			if ra.Bool {
				return b
			}
			return Not(b)
		}
		if rb.IsLit {
			if rb.Bool {
				return a
			}
			return Not(a)
		}
	}
	return mk("=", SBool, a, b)
}

func Select(arr, idx *Term) *Term {
	r := resolve(arr)
	skipped := false
	// select over store chains with syntactically decidable indices
	for r.Op == "store" {
		if sameTerm(r.Args[1], idx) {
			return r.Args[2]
		}
		ri, rj := resolve(r.Args[1]), resolve(idx)
		if (ri.IsLit && rj.IsLit && ri.Int.Cmp(rj.Int) != 0) || intDistinct(ri, rj) {
			r = resolve(r.Args[0])
			skipped = true
			continue
		}
		break
	}
	if skipped && r.Op == "store" {
		arr = r
	}
	if r.Op == "const-array" {
		return r.Args[0]
	}
	if r.Op != "store" && r != arr && len(r.String()) < len(arr.String())+8 {
		arr = r
	}
	return mk("select", arr.Sort.Elem, arr, idx)
}

func Store(arr, idx, v *Term) *Term {
	if v.Sort != arr.Sort.Elem {
		panic(fmt.Sprintf("Store: elem sort mismatch %s vs %s", v.Sort, arr.Sort.Elem))
	}
	return mk("store", arr.Sort, arr, idx, v)
}

// ConstArray builds ((as const (Array I E)) v).
func ConstArray(s *Sort, v *Term) *Term {
	t := &Term{Op: "const-array", Args: []*Term{v}, Sort: s}
	t.str = fmt.Sprintf("((as const %s) %s)", s.Name, v.String())
	return t
}

// datatype helpers
func MkDT(s *Sort, args ...*Term) *Term {
	if len(args) != len(s.DT.Fields) {
		panic("MkDT: arity " + s.Name)
	}
	for i, a := range args {
		if a.Sort != s.DT.Fields[i].Sort {
			panic(fmt.Sprintf("MkDT %s field %d: %s vs %s", s.Name, i, a.Sort, s.DT.Fields[i].Sort))
		}
	}
	if len(args) == 0 {
		return &Term{Op: s.DT.Ctor, Sort: s}
	}
	// (mk (f0 x) (f1 x) ...) == x
	if x := allAccessorsOf(s, args); x != nil {
		return x
	}
	return mk(s.DT.Ctor, s, args...)
}

func allAccessorsOf(s *Sort, args []*Term) *Term {
	var base *Term
	for i, a := range args {
		if a.Op != s.DT.Fields[i].Name || len(a.Args) != 1 {
			return nil
		}
		if base == nil {
			base = a.Args[0]
		} else if !sameTerm(base, a.Args[0]) {
			return nil
		}
	}
	return base
}

func Field(x *Term, i int) *Term {
	s := x.Sort
	r := resolve(x)
	if r.Op == s.DT.Ctor && len(r.Args) == len(s.DT.Fields) {
		return r.Args[i]
	}
	if r.Op == "ite" {
		// push accessor through ite when both sides are constructors
		a, b := resolve(r.Args[1]), resolve(r.Args[2])
		if a.Op == s.DT.Ctor && b.Op == s.DT.Ctor {
			return Ite(r.Args[0], Field(a, i), Field(b, i))
		}
	}
	return mk(s.DT.Fields[i].Name, s.DT.Fields[i].Sort, x)
}

func WithField(x *Term, i int, v *Term) *Term {
	s := x.Sort
	args := make([]*Term, len(s.DT.Fields))
	for j := range args {
		if j == i {
			args[j] = v
		} else {
			args[j] = Field(x, j)
		}
	}
	return MkDT(s, args...)
}

// integer helpers (mathematical Int sort)
func intBin(op string, a, b *Term) *Term {
	ra, rb := resolve(a), resolve(b)
	if ra.IsLit && rb.IsLit {
		r := new(big.Int)
		switch op {
		case "+":
			return BigLit(r.Add(ra.Int, rb.Int), SInt)
		case "-":
			return BigLit(r.Sub(ra.Int, rb.Int), SInt)
		case "*":
			return BigLit(r.Mul(ra.Int, rb.Int), SInt)
		}
	}
	if op == "+" && rb.IsLit && rb.Int.Sign() == 0 {
		return a
	}
	// (x + k1) + k2 -> x + (k1+k2)
	if (op == "+" || op == "-") && rb.IsLit && a.Op == "+" && len(a.Args) == 2 && resolve(a.Args[1]).IsLit {
		k := new(big.Int)
		if op == "+" {
			k.Add(resolve(a.Args[1]).Int, rb.Int)
		} else {
			k.Sub(resolve(a.Args[1]).Int, rb.Int)
		}
		if k.Sign() == 0 {
			return a.Args[0]
		}
		return mk("+", SInt, a.Args[0], BigLit(k, SInt))
	}
	if op == "+" && ra.IsLit && ra.Int.Sign() == 0 {
		return b
	}
	// (x + y) + z -> x + (y + z): the slice offset stays the first operand of every element
	// index, whatever was added to it by reslicing, so triggers of the form s[k] keep matching
	if op == "+" && a.Op == "+" && len(a.Args) == 2 && a.Sym == nil {
		return intBin("+", a.Args[0], intBin("+", a.Args[1], b))
	}
	if op == "-" && rb.IsLit && rb.Int.Sign() == 0 {
		return a
	}
	return mk(op, SInt, a, b)
}

func IAdd(a, b *Term) *Term { return intBin("+", a, b) }
func ISub(a, b *Term) *Term { return intBin("-", a, b) }
func IMul(a, b *Term) *Term { return intBin("*", a, b) }

func intCmp(op string, a, b *Term) *Term {
	ra, rb := resolve(a), resolve(b)
	if ra.IsLit && rb.IsLit {
		c := ra.Int.Cmp(rb.Int)
		switch op {
		case "<":
			return BoolLit(c < 0)
		case "<=":
			return BoolLit(c <= 0)
		case ">":
			return BoolLit(c > 0)
		case ">=":
			return BoolLit(c >= 0)
		}
	}
	if sameTerm(a, b) {
		return BoolLit(op == "<=" || op == ">=")
	}
	return mk(op, SBool, a, b)
}

func ILt(a, b *Term) *Term { return intCmp("<", a, b) }
func ILe(a, b *Term) *Term { return intCmp("<=", a, b) }
func IGe(a, b *Term) *Term { return intCmp(">=", a, b) }
func IGt(a, b *Term) *Term { return intCmp(">", a, b) }

// collectSyms gathers the declared symbols a set of terms depends on, in
// declaration order.
func collectSyms(ts []*Term) []*Sym {
	seenT := map[*Term]bool{}
	seenS := map[*Sym]bool{}
	var out []*Sym
	var visitSym func(s *Sym)
	var visit func(t *Term)
	visitSort := func(s *Sort) {}
	visitSortRec := func(s *Sort) {}
	visitSortRec = func(s *Sort) {
		if s == nil {
			return
		}
		if s.sym != nil {
			visitSym(s.sym)
		}
		visitSortRec(s.Idx)
		visitSortRec(s.Elem)
	}
	visitSort = visitSortRec
	visitSym = func(s *Sym) {
		if s == nil || seenS[s] {
			return
		}
		seenS[s] = true
		for _, d := range s.Deps {
			visitSym(d)
		}
		if s.Def != nil {
			visit(s.Def)
		}
		out = append(out, s)
	}
	visit = func(t *Term) {
		if t == nil || seenT[t] {
			return
		}
		seenT[t] = true
		visitSort(t.Sort)
		if t.Sym != nil {
			visitSym(t.Sym)
		}
		for _, a := range t.Args {
			visit(a)
		}
		if t.Q != nil {
			for _, v := range t.Q.Vars {
				visitSort(v.Sort)
			}
			visit(t.Q.Body)
			for _, p := range t.Q.Pats {
				visit(p)
			}
		}
	}
	for _, t := range ts {
		visit(t)
	}
	sort.SliceStable(out, func(i, j int) bool { return out[i].id < out[j].id })
	return out
}
