package main

// Go integer semantics. Two modes (DESIGN 2.5):
//   LIA  : Go integers are SMT Int with exact wrap-around encoded by ite/mod;
//          operations that are not linear (var*var, var<<var, bit ops with
//          non-constant masks) become uninterpreted functions (sound: any result).
//   BV   : Go integers are bit-vectors of their exact width.

import (
	"fmt"
	"go/token"
	"go/types"
	"math/big"
)

func pow2(n int) *big.Int { return new(big.Int).Lsh(big.NewInt(1), uint(n)) }

func basicOf(t types.Type) *types.Basic {
	b, _ := types.Unalias(t).Underlying().(*types.Basic)
	return b
}

func isIntType(t types.Type) bool {
	b := basicOf(t)
	return b != nil && b.Info()&types.IsInteger != 0
}

func intBounds(b *types.Basic) (lo, hi *big.Int) {
	w := intWidth(b)
	if isUnsigned(b) {
		return big.NewInt(0), new(big.Int).Sub(pow2(w), big.NewInt(1))
	}
	return new(big.Int).Neg(pow2(w - 1)), new(big.Int).Sub(pow2(w-1), big.NewInt(1))
}

// InRange returns the range fact for a value of integer type t (LIA mode).
func (c *Ctx) InRange(x *Term, t types.Type) *Term {
	b := basicOf(t)
	if c.BV || b == nil || b.Info()&types.IsInteger == 0 {
		return True
	}
	lo, hi := intBounds(b)
	return And(ILe(BigLit(lo, SInt), x), ILe(x, BigLit(hi, SInt)))
}

// wrap normalises a mathematical result into the range of b. It assumes the
// result is off by at most one modulus unless exact is false.
func (c *Ctx) wrap(r *Term, b *types.Basic, oneStep bool) *Term {
	lo, hi := intBounds(b)
	m := pow2(intWidth(b))
	rr := resolve(r)
	if rr.IsLit {
		v := new(big.Int).Set(rr.Int)
		v.Sub(v, lo)
		v.Mod(v, m)
		v.Add(v, lo)
		return BigLit(v, SInt)
	}
	M := BigLit(m, SInt)
	if oneStep {
		if isUnsigned(b) {
			return Ite(IGt(r, BigLit(hi, SInt)), ISub(r, M), Ite(ILt(r, IntLit(0)), IAdd(r, M), r))
		}
		return Ite(IGt(r, BigLit(hi, SInt)), ISub(r, M), Ite(ILt(r, BigLit(lo, SInt)), IAdd(r, M), r))
	}
	if isUnsigned(b) {
		return mk("mod", SInt, r, M)
	}
	half := BigLit(pow2(intWidth(b)-1), SInt)
	return ISub(mk("mod", SInt, IAdd(r, half), M), half)
}

func isPow2(v *big.Int) (int, bool) {
	if v.Sign() <= 0 {
		return 0, false
	}
	n := v.BitLen() - 1
	return n, new(big.Int).Lsh(big.NewInt(1), uint(n)).Cmp(v) == 0
}

// Bin implements a Go binary operator on operands of type t (for shifts t is the
// type of x and yt the type of y).
func (c *Ctx) Bin(op token.Token, x, y *Term, t, yt types.Type) *Term {
	b := basicOf(t)
	if b == nil || b.Info()&types.IsInteger == 0 {
		panic("Bin on non-integer " + t.String())
	}
	if c.BV {
		return c.binBV(op, x, y, b, basicOf(yt))
	}
	rx, ry := resolve(x), resolve(y)
	switch op {
	case token.ADD:
		return c.wrap(IAdd(x, y), b, true)
	case token.SUB:
		return c.wrap(ISub(x, y), b, true)
	case token.MUL:
		if rx.IsLit || ry.IsLit {
			return c.wrap(IMul(x, y), b, rx.IsLit && ry.IsLit)
		}
		return c.Func("mul_"+b.Name(), SInt, x, y)
	case token.QUO, token.REM:
		if ry.IsLit && ry.Int.Sign() > 0 && isUnsigned(b) {
			if rx.IsLit {
				q, m := new(big.Int).QuoRem(rx.Int, ry.Int, new(big.Int))
				if op == token.QUO {
					return BigLit(q, SInt)
				}
				return BigLit(m, SInt)
			}
			if op == token.QUO {
				return mk("div", SInt, x, y)
			}
			return mk("mod", SInt, x, y)
		}
		if ry.IsLit && ry.Int.Sign() > 0 {
			// signed, truncated towards zero
			if op == token.QUO {
				return Ite(IGe(x, IntLit(0)), mk("div", SInt, x, y), mk("-", SInt, mk("div", SInt, mk("-", SInt, x), y)))
			}
			return Ite(IGe(x, IntLit(0)), mk("mod", SInt, x, y), mk("-", SInt, mk("mod", SInt, mk("-", SInt, x), y)))
		}
		if op == token.QUO {
			return c.Func("quo_"+b.Name(), SInt, x, y)
		}
		return c.Func("rem_"+b.Name(), SInt, x, y)
	case token.AND:
		if isUnsigned(b) || true {
			for _, p := range [][2]*Term{{x, ry}, {y, rx}} {
				if p[1].IsLit {
					if p[1].Int.Sign() == 0 {
						return IntLit(0)
					}
					if n, ok := isPow2(new(big.Int).Add(p[1].Int, big.NewInt(1))); ok && isUnsigned(b) {
						return mk("mod", SInt, p[0], BigLit(pow2(n), SInt))
					}
				}
			}
		}
		return c.Func("and_"+b.Name(), SInt, x, y)
	case token.OR:
		if ry.IsLit && ry.Int.Sign() == 0 {
			return x
		}
		if rx.IsLit && rx.Int.Sign() == 0 {
			return y
		}
		return c.Func("or_"+b.Name(), SInt, x, y)
	case token.XOR:
		return c.Func("xor_"+b.Name(), SInt, x, y)
	case token.AND_NOT:
		return c.Func("andnot_"+b.Name(), SInt, x, y)
	case token.SHL:
		if ry.IsLit {
			k := int(ry.Int.Int64())
			if k >= intWidth(b) {
				return IntLit(0)
			}
			return c.wrap(IMul(x, BigLit(pow2(k), SInt)), b, rx.IsLit)
		}
		return c.Func("shl_"+b.Name(), SInt, x, y)
	case token.SHR:
		if ry.IsLit && isUnsigned(b) {
			k := int(ry.Int.Int64())
			if k >= intWidth(b) {
				return IntLit(0)
			}
			if rx.IsLit {
				return BigLit(new(big.Int).Rsh(rx.Int, uint(k)), SInt)
			}
			return mk("div", SInt, x, BigLit(pow2(k), SInt))
		}
		return c.Func("shr_"+b.Name(), SInt, x, y)
	}
	panic(fmt.Sprintf("Bin: unsupported op %v", op))
}

func (c *Ctx) bvLit(v *big.Int, w int) *Term { return BigLit(v, c.bvSort(w)) }

func bvFold(op string, a, b *big.Int, w int, signed bool) *big.Int {
	m := pow2(w)
	norm := func(v *big.Int) *big.Int {
		v = new(big.Int).Mod(v, m)
		return v
	}
	a, b = norm(a), norm(b)
	r := new(big.Int)
	switch op {
	case "bvadd":
		r.Add(a, b)
	case "bvsub":
		r.Sub(a, b)
	case "bvmul":
		r.Mul(a, b)
	case "bvand":
		r.And(a, b)
	case "bvor":
		r.Or(a, b)
	case "bvxor":
		r.Xor(a, b)
	case "bvshl":
		if b.Cmp(big.NewInt(int64(w))) >= 0 {
			return big.NewInt(0)
		}
		r.Lsh(a, uint(b.Int64()))
	case "bvlshr":
		if b.Cmp(big.NewInt(int64(w))) >= 0 {
			return big.NewInt(0)
		}
		r.Rsh(a, uint(b.Int64()))
	default:
		return nil
	}
	return norm(r)
}

func (c *Ctx) bvop(op string, x, y *Term) *Term {
	rx, ry := resolve(x), resolve(y)
	if rx.IsLit && ry.IsLit {
		if r := bvFold(op, rx.Int, ry.Int, x.Sort.BVWidth, false); r != nil {
			return BigLit(r, x.Sort)
		}
	}
	return mk(op, x.Sort, x, y)
}

func (c *Ctx) binBV(op token.Token, x, y *Term, b, yb *types.Basic) *Term {
	w := x.Sort.BVWidth
	signed := !isUnsigned(b)
	switch op {
	case token.ADD:
		return c.bvop("bvadd", x, y)
	case token.SUB:
		return c.bvop("bvsub", x, y)
	case token.MUL:
		return c.bvop("bvmul", x, y)
	case token.QUO:
		if signed {
			return mk("bvsdiv", x.Sort, x, y)
		}
		return mk("bvudiv", x.Sort, x, y)
	case token.REM:
		if signed {
			return mk("bvsrem", x.Sort, x, y)
		}
		return mk("bvurem", x.Sort, x, y)
	case token.AND:
		return c.bvop("bvand", x, y)
	case token.OR:
		return c.bvop("bvor", x, y)
	case token.XOR:
		return c.bvop("bvxor", x, y)
	case token.AND_NOT:
		return c.bvop("bvand", x, mk("bvnot", x.Sort, y))
	case token.SHL, token.SHR:
		// bring the shift count to x's width; counts >= width give 0 (or sign fill)
		yw := y.Sort.BVWidth
		var cnt *Term
		var big_ *Term = False
		switch {
		case yw == w:
			cnt = y
		case yw < w:
			cnt = c.zext(y, w)
		default:
			cnt = c.extract(y, w-1, 0)
			big_ = mk("bvuge", SBool, y, c.bvLit(big.NewInt(int64(w)), yw))
			if ry := resolve(y); ry.IsLit {
				big_ = BoolLit(ry.Int.Cmp(big.NewInt(int64(w))) >= 0)
			}
		}
		sop := "bvshl"
		if op == token.SHR {
			sop = "bvlshr"
			if signed {
				sop = "bvashr"
			}
		}
		var r *Term
		if sop == "bvashr" {
			r = mk(sop, x.Sort, x, cnt)
			return Ite(big_, mk(sop, x.Sort, x, c.bvLit(big.NewInt(int64(w-1)), w)), r)
		}
		r = c.bvop(sop, x, cnt)
		return Ite(big_, c.bvLit(big.NewInt(0), w), r)
	}
	panic(fmt.Sprintf("binBV: unsupported op %v", op))
}

func (c *Ctx) zext(x *Term, w int) *Term {
	d := w - x.Sort.BVWidth
	if d == 0 {
		return x
	}
	if rx := resolve(x); rx.IsLit {
		return BigLit(new(big.Int).Mod(rx.Int, pow2(x.Sort.BVWidth)), c.bvSort(w))
	}
	return mk(fmt.Sprintf("(_ zero_extend %d)", d), c.bvSort(w), x)
}

func (c *Ctx) sext(x *Term, w int) *Term {
	d := w - x.Sort.BVWidth
	if d == 0 {
		return x
	}
	return mk(fmt.Sprintf("(_ sign_extend %d)", d), c.bvSort(w), x)
}

func (c *Ctx) extract(x *Term, hi, lo int) *Term {
	if rx := resolve(x); rx.IsLit {
		v := new(big.Int).Mod(rx.Int, pow2(x.Sort.BVWidth))
		v.Rsh(v, uint(lo))
		v.Mod(v, pow2(hi-lo+1))
		return BigLit(v, c.bvSort(hi-lo+1))
	}
	return mk(fmt.Sprintf("(_ extract %d %d)", hi, lo), c.bvSort(hi-lo+1), x)
}

// Cmp implements ordered comparison of integers of type t.
func (c *Ctx) Cmp(op token.Token, x, y *Term, t types.Type) *Term {
	b := basicOf(t)
	if c.BV && b != nil && b.Info()&types.IsInteger != 0 {
		rx, ry := resolve(x), resolve(y)
		signed := !isUnsigned(b)
		if rx.IsLit && ry.IsLit {
			w := x.Sort.BVWidth
			av, bv := new(big.Int).Mod(rx.Int, pow2(w)), new(big.Int).Mod(ry.Int, pow2(w))
			if signed {
				if av.Cmp(pow2(w-1)) >= 0 {
					av.Sub(av, pow2(w))
				}
				if bv.Cmp(pow2(w-1)) >= 0 {
					bv.Sub(bv, pow2(w))
				}
			}
			cm := av.Cmp(bv)
			switch op {
			case token.LSS:
				return BoolLit(cm < 0)
			case token.LEQ:
				return BoolLit(cm <= 0)
			case token.GTR:
				return BoolLit(cm > 0)
			case token.GEQ:
				return BoolLit(cm >= 0)
			}
		}
		var name string
		switch op {
		case token.LSS:
			name = "lt"
		case token.LEQ:
			name = "le"
		case token.GTR:
			name = "gt"
		case token.GEQ:
			name = "ge"
		}
		if signed {
			return mk("bvs"+name, SBool, x, y)
		}
		return mk("bvu"+name, SBool, x, y)
	}
	switch op {
	case token.LSS:
		return ILt(x, y)
	case token.LEQ:
		return ILe(x, y)
	case token.GTR:
		return IGt(x, y)
	case token.GEQ:
		return IGe(x, y)
	}
	panic("Cmp op")
}

// ConvertInt converts an integer between Go types.
func (c *Ctx) ConvertInt(x *Term, from, to types.Type) *Term {
	fb, tb := basicOf(from), basicOf(to)
	if c.BV {
		fw, tw := intWidth(fb), intWidth(tb)
		switch {
		case fw == tw:
			return x
		case fw > tw:
			return c.extract(x, tw-1, 0)
		case isUnsigned(fb):
			return c.zext(x, tw)
		default:
			return c.sext(x, tw)
		}
	}
	flo, fhi := intBounds(fb)
	tlo, thi := intBounds(tb)
	if flo.Cmp(tlo) >= 0 && fhi.Cmp(thi) <= 0 {
		return x // widening
	}
	if rx := resolve(x); rx.IsLit {
		return c.wrap(x, tb, false)
	}
	// same width sign change is one step; narrowing needs mod
	if intWidth(fb) == intWidth(tb) {
		return c.wrap(x, tb, true)
	}
	return c.wrap(x, tb, false)
}

// W-sort helpers (lengths and indices). In LIA mode W is Int.
func (c *Ctx) WAdd(a, b *Term) *Term {
	if c.BV {
		return c.bvop("bvadd", a, b)
	}
	return IAdd(a, b)
}
func (c *Ctx) WSub(a, b *Term) *Term {
	if c.BV {
		return c.bvop("bvsub", a, b)
	}
	return ISub(a, b)
}
func (c *Ctx) WLt(a, b *Term) *Term {
	if c.BV {
		return c.Cmp(token.LSS, a, b, types.Typ[types.Int])
	}
	return ILt(a, b)
}
func (c *Ctx) WLe(a, b *Term) *Term {
	if c.BV {
		return c.Cmp(token.LEQ, a, b, types.Typ[types.Int])
	}
	return ILe(a, b)
}

// ToW converts an integer of Go type t into the word sort.
func (c *Ctx) ToW(x *Term, t types.Type) *Term {
	if !c.BV {
		return x
	}
	return c.ConvertInt(x, t, types.Typ[types.Int])
}
