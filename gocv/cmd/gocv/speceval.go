package main

// Evaluation of contract expressions against a symbolic state.

import (
	"strconv"
	"fmt"
	"go/constant"
	"go/token"
	"go/types"
	"math/big"
	"strings"

	"golang.org/x/tools/go/ssa"
)

type SVal struct {
	T       *Term
	Typ     types.Type
	Pkg     *types.Package // package identifier
	Untyped bool
	Math    bool // mathematical (ghost) map: datatype (has, val)
	Fn      *types.Func
	Recv    *SVal
	IsType  bool
	NoCall  bool // callarg/callres of a call that did not happen on this path: every comparison is false
}

type SpecEnv struct {
	fv       *FuncVer
	st, old  *State
	vars     map[string]SVal
	frame    *Frame
	pkg      *types.Package
	scopePos token.Pos
	where    string
	// map-range loops: keys already iterated / presence at loop start
	visited    *Term
	visitedKey types.Type
	iterStart  *Term
	// callback contracts: the arguments of the callback call as the executor holds them
	rawArgs []Val
}

type specError string

func (fv *FuncVer) newEnv(st, old *State) *SpecEnv {
	return &SpecEnv{fv: fv, st: st, old: old, vars: map[string]SVal{}, pkg: fv.fn.Pkg.Pkg}
}

// frameEnv: environment for loop invariants inside frame f.
func (fv *FuncVer) frameEnv(st *State, f *Frame) *SpecEnv {
	env := fv.newEnv(st, st.old)
	env.frame = f
	if f.fn.Pkg != nil {
		env.pkg = f.fn.Pkg.Pkg
	} else if tf := topFunc(f.fn); tf.Pkg != nil {
		env.pkg = tf.Pkg.Pkg
	}
	if f.block != nil {
		for _, ins := range f.block.Instrs {
			p := ins.Pos()
			if d, ok := ins.(*ssa.DebugRef); ok {
				p = d.Expr.Pos()
			}
			if p.IsValid() {
				env.scopePos = p
				break
			}
		}
	}
	if len(st.frames) > 0 && st.frames[0] == f || f.id == 1 {
		for k, v := range fv.entryVars {
			env.vars["old:"+k] = v
		}
	}
	return env
}

func (env *SpecEnv) fail(f string, a ...any) {
	panic(specError(fmt.Sprintf(f, a...)))
}

func (fv *FuncVer) evalBool(env *SpecEnv, e *SExpr) *Term {
	v := env.eval(e)
	if v.NoCall {
		return False
	}
	if v.T == nil || v.T.Sort != SBool {
		env.fail("expected boolean expression, got %v", e)
	}
	return v.T
}

func (env *SpecEnv) eval(e *SExpr) SVal {
	fv := env.fv
	c := fv.ctx
	switch e.Op {
	case "paren":
		return env.eval(e.Args[0])
	case "bool":
		return SVal{T: BoolLit(e.Val == "true"), Typ: types.Typ[types.Bool]}
	case "int":
		v, ok := new(big.Int).SetString(strings.ReplaceAll(e.Val, "_", ""), 0)
		if !ok {
			env.fail("bad integer %q", e.Val)
		}
		return SVal{T: BigLit(v, SInt), Typ: types.Typ[types.UntypedInt], Untyped: true}
	case "str":
		return SVal{T: c.StrLit(e.Val), Typ: types.Typ[types.String]}
	case "nil":
		return SVal{Untyped: true, Typ: types.Typ[types.UntypedNil]}
	case "old":
		if env.old == nil {
			env.fail("old() not available here")
		}
		ne := *env
		ne.st = env.old
		ne.frame = nil
		// locals referenced inside old() are parameters: entry values
		nv := map[string]SVal{}
		for k, v := range env.vars {
			nv[k] = v
		}
		for k, v := range env.vars {
			if strings.HasPrefix(k, "old:") {
				nv[strings.TrimPrefix(k, "old:")] = v
			}
		}
		ne.vars = nv
		return ne.eval(e.Args[0])
	case "loopentry":
		le := env.fv.loopEntry
		if le == nil {
			env.fail("loopentry() is only available in loop invariants")
		}
		ne := *env
		ne.st = le
		if env.frame != nil {
			ne.frame = nil
			for _, f := range le.frames {
				if f.id == env.frame.id {
					ne.frame = f
				}
			}
		}
		return ne.eval(e.Args[0])
	case "ident":
		return env.ident(e.Name)
	case "sel":
		return env.sel(e)
	case "index":
		return env.index(e)
	case "in":
		k := env.eval(e.Args[0])
		m := env.eval(e.Args[1])
		if k.NoCall {
			return k
		}
		if m.NoCall {
			return m
		}
		if m.Math {
			return SVal{T: Select(Field(m.T, 0), env.coerce(k, mathKey(m.Typ)).T), Typ: types.Typ[types.Bool]}
		}
		mt, ok := types.Unalias(m.Typ).Underlying().(*types.Map)
		if !ok {
			env.fail("'in' needs a map, got %s", m.Typ)
		}
		fv.nilMapFacts(env.st, mt)
		return SVal{T: Select(fv.mapHas(env.st, m.T, mt), env.coerce(k, mt.Key()).T), Typ: types.Typ[types.Bool]}
	case "upd":
		m := env.eval(e.Args[0])
		if !m.Math {
			env.fail("update expression needs a ghost map")
		}
		k := env.coerce(env.eval(e.Args[1]), mathKey(m.Typ))
		v := env.coerce(env.eval(e.Args[2]), mathElem(m.Typ))
		return SVal{T: MkDT(m.T.Sort, Store(Field(m.T, 0), k.T, True), Store(Field(m.T, 1), k.T, v.T)), Typ: m.Typ, Math: true}
	case "zero":
		t := fv.eng.parseType(e.Val, env.pkg)
		return SVal{T: c.Zero(t), Typ: t}
	case "un":
		return env.unary(e)
	case "bin":
		return env.binary(e)
	case "forall", "exists":
		ne := *env
		ne.vars = map[string]SVal{}
		for k, v := range env.vars {
			ne.vars[k] = v
		}
		var bvs []*Term
		var ranges []*Term
		for _, v := range e.Vars {
			t := fv.eng.parseType(v.Type, env.pkg)
			bv := BoundVar(v.Name+"_q", c.SortOf(t))
			bvs = append(bvs, bv)
			ne.vars[v.Name] = SVal{T: bv, Typ: t}
			if isIntType(t) {
				ranges = append(ranges, c.InRange(bv, t))
			}
		}
		body := fv.evalBool(&ne, e.Args[0])
		var pats []*Term
		for _, p := range e.Pats {
			pt := ne.eval(p).T
			// a map read is ite(present, value, zero): trigger on the value read, which
			// survives updates of the map (the ite does not)
			for pt != nil && pt.Op == "ite" && len(pt.Args) == 3 {
				pt = pt.Args[1]
			}
			pats = append(pats, pt)
		}
		if e.Op == "forall" {
			return SVal{T: Forall(bvs, Implies(And(ranges...), body), pats...), Typ: types.Typ[types.Bool]}
		}
		return SVal{T: Exists(bvs, And(append(ranges, body)...)), Typ: types.Typ[types.Bool]}
	case "call":
		return env.call(e)
	case "slice":
		x := env.eval(e.Args[0])
		if _, ok := types.Unalias(x.Typ).Underlying().(*types.Slice); !ok {
			env.fail("slice expression on %s", x.Typ)
		}
		lo := c.WLit(0)
		hi := Field(x.T, 2)
		if e.Args[1] != nil {
			lo = env.toW(env.eval(e.Args[1]))
		}
		if e.Args[2] != nil {
			hi = env.toW(env.eval(e.Args[2]))
		}
		return SVal{T: MkDT(c.SSlice, Field(x.T, 0), c.WAdd(Field(x.T, 1), lo), c.WSub(hi, lo), c.WSub(Field(x.T, 3), lo)), Typ: x.Typ}
	case "typeassert":
		x := env.eval(e.Args[0])
		if x.NoCall {
			return x
		}
		t := fv.eng.parseType(e.Val, env.pkg)
		return SVal{T: c.Func("unbox_"+sanitize(typeKey(t)), c.SortOf(t), x.T), Typ: t}
	}
	env.fail("unsupported spec expression %s", e.Op)
	return SVal{}
}

func mathKey(t types.Type) types.Type { return types.Unalias(t).Underlying().(*types.Map).Key() }
func mathElem(t types.Type) types.Type { return types.Unalias(t).Underlying().(*types.Map).Elem() }

func (env *SpecEnv) toW(v SVal) *Term {
	c := env.fv.ctx
	if v.Untyped {
		return BigLit(resolve(v.T).Int, c.W)
	}
	return c.ToW(v.T, v.Typ)
}

func (env *SpecEnv) ident(name string) SVal {
	fv := env.fv
	if v, ok := env.vars[name]; ok {
		return v
	}
	if env.frame != nil {
		if v, ok := env.local(name); ok {
			return v
		}
		// a variable of an enclosing function that an inlined closure reaches only through
		// another closure: look through the caller frames
		if name != "rangeindex" && name != "outerindex" {
			saved := env.frame
			for i := len(env.st.frames) - 1; i >= 0; i-- {
				f2 := env.st.frames[i]
				if f2 == saved || f2.id >= saved.id {
					continue
				}
				env.frame = f2
				v, ok := env.local(name)
				env.frame = saved
				if ok {
					return v
				}
			}
		}
	}
	if gl, ok := fv.ghostLocals[name]; ok {
		if v, ok := env.st.globals["gl:"+name]; ok {
			return SVal{T: v, Typ: gl.typ, Math: gl.math}
		}
		return SVal{T: gl.init, Typ: gl.typ, Math: gl.math}
	}
	if g, ok := fv.eng.ghosts[name]; ok {
		return fv.ghostSVal(env.st, g)
	}
	if name == "selcase" {
		if t, ok := env.st.globals["sel:case"]; ok {
			return SVal{T: t, Typ: types.Typ[types.Int]}
		}
		env.fail("selcase is only available in `aftercall select` hooks")
	}
	if name == "now" {
		return SVal{T: fv.ctx.Func("now_", SInt), Typ: types.Typ[types.Int64]}
	}
	if env.pkg != nil {
		if obj := env.pkg.Scope().Lookup(name); obj != nil {
			return env.object(obj)
		}
		if ip := fv.eng.importedAs(env.pkg, name); ip != nil {
			return SVal{Pkg: ip}
		}
		for _, imp := range env.pkg.Imports() {
			if imp.Name() == name {
				return SVal{Pkg: imp}
			}
		}
		// imports are per file; also accept any package the program knows by name
		if p := fv.eng.pkgByName(name); p != nil {
			return SVal{Pkg: p}
		}
	}
	if obj := types.Universe.Lookup(name); obj != nil {
		if tn, ok := obj.(*types.TypeName); ok {
			return SVal{Typ: tn.Type(), IsType: true}
		}
	}
	env.fail("unknown identifier %q", name)
	return SVal{}
}

func (env *SpecEnv) object(obj types.Object) SVal {
	fv := env.fv
	switch o := obj.(type) {
	case *types.Const:
		return env.constant(o.Val(), o.Type())
	case *types.Var:
		gname := o.Pkg().Path() + "." + o.Name()
		return SVal{T: fv.globalValue(env.st, gname, o.Type()), Typ: o.Type()}
	case *types.Func:
		return SVal{Fn: o}
	case *types.TypeName:
		return SVal{Typ: o.Type(), IsType: true}
	}
	env.fail("unsupported object %v", obj)
	return SVal{}
}

func (env *SpecEnv) constant(v constant.Value, t types.Type) SVal {
	c := env.fv.ctx
	switch v.Kind() {
	case constant.Bool:
		return SVal{T: BoolLit(constant.BoolVal(v)), Typ: t}
	case constant.Int:
		bi, _ := new(big.Int).SetString(v.ExactString(), 10)
		if b := basicOf(t); b != nil && b.Info()&types.IsUntyped != 0 {
			return SVal{T: BigLit(bi, SInt), Typ: t, Untyped: true}
		}
		return SVal{T: c.IntOf(bi, t), Typ: t}
	case constant.String:
		return SVal{T: c.StrLit(constant.StringVal(v)), Typ: t}
	}
	env.fail("unsupported constant kind")
	return SVal{}
}

// local resolves a local variable of the current frame (or an enclosing
// function, through closure bindings) by name at the annotated position.
func (env *SpecEnv) local(name string) (SVal, bool) {
	fv := env.fv
	f := env.frame
	var cands []*ssa.Alloc
	for _, ins := range allAllocs(f.fn) {
		if ins.Comment == name {
			cands = append(cands, ins)
		}
	}
	if name == "rangeindex" && f.block != nil {
		// the hidden index of the range loop whose header is the current block
		cands = nil
		for _, ins := range f.block.Instrs {
			if u, ok := ins.(*ssa.UnOp); ok {
				if a, ok := u.X.(*ssa.Alloc); ok && a.Comment == "rangeindex" {
					cands = []*ssa.Alloc{a}
					break
				}
			}
		}
	}
	if name == "outerindex" && f.block != nil {
		// the hidden index of the innermost range loop strictly enclosing the current loop
		cands = nil
		var best *loopInfo
		for _, li := range fv.loopsOf(f.fn).byHeader {
			if li.header == f.block || !li.body[f.block] {
				continue
			}
			if best == nil || len(li.body) < len(best.body) {
				best = li
			}
		}
		if best != nil {
			for _, ins := range best.header.Instrs {
				if u, ok := ins.(*ssa.UnOp); ok {
					if a, ok := u.X.(*ssa.Alloc); ok && a.Comment == "rangeindex" {
						cands = []*ssa.Alloc{a}
						break
					}
				}
			}
		}
	}
	pick := func() *ssa.Alloc {
		if len(cands) == 0 {
			return nil
		}
		if len(cands) == 1 {
			return cands[0]
		}
		// disambiguate by scope
		if env.scopePos.IsValid() && env.pkg != nil {
			if sc := fv.eng.innermostScope(env.pkg, env.scopePos); sc != nil {
				if _, obj := sc.LookupParent(name, env.scopePos); obj != nil {
					for _, a := range cands {
						if a.Pos() == obj.Pos() {
							return a
						}
					}
				}
			}
		}
		// prefer the one that is live (has a cell) and declared last before scopePos
		var best *ssa.Alloc
		for _, a := range cands {
			if _, ok := f.regs[a]; !ok {
				continue
			}
			if best == nil || a.Pos() > best.Pos() {
				best = a
			}
		}
		return best
	}
	if a := pick(); a != nil {
		lv, ok := f.regs[a]
		if !ok {
			return SVal{}, false
		}
		l := lv.(*Loc)
		et := a.Type().(*types.Pointer).Elem()
		v := fv.load(env.st, l)
		t, ok := v.(*Term)
		if !ok {
			// a pointer to a whole heap object is its reference
			if pl, isLoc := v.(*Loc); isLoc && pl.Kind == rootHeap && len(pl.Path) == 0 {
				return SVal{T: pl.Ref, Typ: et}, true
			}
			env.fail("local %q holds a structured pointer; not usable in specs", name)
		}
		return SVal{T: t, Typ: et}, true
	}
	// captured variables
	for i, fvar := range f.fn.FreeVars {
		if fvar.Name() == name && i < len(f.bindings) {
			if l, ok := f.bindings[i].(*Loc); ok {
				v := fv.load(env.st, l)
				if t, ok := v.(*Term); ok {
					return SVal{T: t, Typ: fvar.Type().(*types.Pointer).Elem()}, true
				}
			}
		}
	}
	return SVal{}, false
}

func allAllocs(fn *ssa.Function) []*ssa.Alloc {
	var out []*ssa.Alloc
	for _, b := range fn.Blocks {
		for _, ins := range b.Instrs {
			if a, ok := ins.(*ssa.Alloc); ok {
				out = append(out, a)
			}
		}
	}
	return out
}

func (env *SpecEnv) sel(e *SExpr) SVal {
	fv := env.fv
	x := env.eval(e.Args[0])
	if x.NoCall {
		return x
	}
	if x.Pkg != nil {
		obj := x.Pkg.Scope().Lookup(e.Name)
		if obj == nil {
			env.fail("%s.%s not found", x.Pkg.Name(), e.Name)
		}
		return env.object(obj)
	}
	if x.T == nil {
		env.fail("selector on non-value %v", e.Args[0])
	}
	t := x.Typ
	// automatic dereference
	if pt, ok := types.Unalias(t).Underlying().(*types.Pointer); ok {
		l := fv.locOf(x.T, pt.Elem())
		v := fv.load(env.st, l)
		x = SVal{T: v.(*Term), Typ: pt.Elem()}
		t = pt.Elem()
	}
	obj, idx, _ := types.LookupFieldOrMethod(t, true, env.pkgForLookup(t), e.Name)
	switch o := obj.(type) {
	case *types.Var:
		cur := x
		for _, i := range idx {
			st, ok := types.Unalias(cur.Typ).Underlying().(*types.Struct)
			if !ok {
				if pt, ok := types.Unalias(cur.Typ).Underlying().(*types.Pointer); ok {
					l := fv.locOf(cur.T, pt.Elem())
					cur = SVal{T: fv.load(env.st, l).(*Term), Typ: pt.Elem()}
					st = types.Unalias(cur.Typ).Underlying().(*types.Struct)
				} else {
					env.fail("field path through non-struct %s", cur.Typ)
				}
			}
			cur = SVal{T: Field(cur.T, i), Typ: st.Field(i).Type()}
		}
		return cur
	case *types.Func:
		return SVal{Fn: o, Recv: &x}
	}
	env.fail("no field or method %q on %s", e.Name, t)
	return SVal{}
}

func (env *SpecEnv) pkgForLookup(t types.Type) *types.Package {
	if n, ok := types.Unalias(t).(*types.Named); ok && n.Obj().Pkg() != nil {
		return n.Obj().Pkg()
	}
	return env.pkg
}

func (env *SpecEnv) index(e *SExpr) SVal {
	fv := env.fv
	c := fv.ctx
	x := env.eval(e.Args[0])
	if x.NoCall {
		return x
	}
	i := env.eval(e.Args[1])
	if i.NoCall {
		return i
	}
	if x.Math {
		k := env.coerce(i, mathKey(x.Typ))
		return SVal{T: Select(Field(x.T, 1), k.T), Typ: mathElem(x.Typ)}
	}
	switch u := types.Unalias(x.Typ).Underlying().(type) {
	case *types.Map:
		k := env.coerce(i, u.Key())
		fv.nilMapFacts(env.st, u)
		has := Select(fv.mapHas(env.st, x.T, u), k.T)
		return SVal{T: Ite(has, Select(fv.mapVals(env.st, x.T, u), k.T), c.Zero(u.Elem())), Typ: u.Elem()}
	case *types.Slice:
		if g := fv.immutableGlobalSlice(x.T); g != "" {
			return SVal{T: c.Func("gelem_"+g, c.SortOf(u.Elem()), env.toW(i)), Typ: u.Elem()}
		}
		key, hs := fv.elemsKey(u.Elem())
		arr := Select(fv.heap(env.st, key, hs), Field(x.T, 0))
		return SVal{T: Select(arr, c.WAdd(Field(x.T, 1), env.toW(i))), Typ: u.Elem()}
	case *types.Array:
		if x.T.Sort.Elem == nil {
			env.fail("index into opaque array")
		}
		return SVal{T: Select(x.T, env.toW(i)), Typ: u.Elem()}
	case *types.Pointer:
		if a, ok := u.Elem().Underlying().(*types.Array); ok {
			l := fv.locOf(x.T, u.Elem())
			v := fv.load(env.st, l).(*Term)
			return SVal{T: Select(v, env.toW(i)), Typ: a.Elem()}
		}
	}
	env.fail("cannot index %s", x.Typ)
	return SVal{}
}

// coerce gives an untyped literal the type t.
func (env *SpecEnv) coerce(v SVal, t types.Type) SVal {
	c := env.fv.ctx
	if !v.Untyped {
		return v
	}
	if v.T == nil { // nil
		return SVal{T: c.Zero(t), Typ: t}
	}
	if isIntType(t) {
		return SVal{T: c.IntOf(resolve(v.T).Int, t), Typ: t}
	}
	return SVal{T: v.T, Typ: t}
}

func (env *SpecEnv) unify(a, b SVal) (SVal, SVal) {
	switch {
	case a.Untyped && !b.Untyped:
		return env.coerce(a, b.Typ), b
	case b.Untyped && !a.Untyped:
		return a, env.coerce(b, a.Typ)
	case a.Untyped && b.Untyped && a.T != nil && b.T != nil && env.fv.ctx.BV:
		it := types.Typ[types.Int]
		return env.coerce(a, it), env.coerce(b, it)
	}
	if a.T != nil && b.T != nil && a.T.Sort != b.T.Sort && env.fv.ctx.BV && isIntType(a.Typ) && isIntType(b.Typ) {
		// mixed widths in specs: widen to 64
		return SVal{T: env.fv.ctx.ConvertInt(a.T, a.Typ, types.Typ[types.Uint64]), Typ: types.Typ[types.Uint64]},
			SVal{T: env.fv.ctx.ConvertInt(b.T, b.Typ, types.Typ[types.Uint64]), Typ: types.Typ[types.Uint64]}
	}
	return a, b
}

func (env *SpecEnv) unary(e *SExpr) SVal {
	fv := env.fv
	c := fv.ctx
	x := env.eval(e.Args[0])
	if x.NoCall {
		return x
	}
	switch e.Name {
	case "!":
		return SVal{T: Not(x.T), Typ: x.Typ}
	case "-":
		if x.Untyped {
			return SVal{T: BigLit(new(big.Int).Neg(resolve(x.T).Int), SInt), Typ: x.Typ, Untyped: true}
		}
		if c.BV {
			return SVal{T: mk("bvneg", x.T.Sort, x.T), Typ: x.Typ}
		}
		return SVal{T: ISub(IntLit(0), x.T), Typ: x.Typ}
	case "*":
		pt, ok := types.Unalias(x.Typ).Underlying().(*types.Pointer)
		if !ok {
			env.fail("dereference of non-pointer %s", x.Typ)
		}
		l := fv.locOf(x.T, pt.Elem())
		return SVal{T: fv.load(env.st, l).(*Term), Typ: pt.Elem()}
	}
	env.fail("unsupported unary %s", e.Name)
	return SVal{}
}

func (env *SpecEnv) binary(e *SExpr) SVal {
	fv := env.fv
	c := fv.ctx
	tb := types.Typ[types.Bool]
	switch e.Name {
	case "==>":
		a := fv.evalBool(env, e.Args[0])
		b := fv.evalBool(env, e.Args[1])
		return SVal{T: Implies(a, b), Typ: tb}
	case "<==>":
		return SVal{T: Eq(fv.evalBool(env, e.Args[0]), fv.evalBool(env, e.Args[1])), Typ: tb}
	case "&&":
		return SVal{T: And(fv.evalBool(env, e.Args[0]), fv.evalBool(env, e.Args[1])), Typ: tb}
	case "||":
		return SVal{T: Or(fv.evalBool(env, e.Args[0]), fv.evalBool(env, e.Args[1])), Typ: tb}
	}
	ea, eb := env.eval(e.Args[0]), env.eval(e.Args[1])
	if ea.NoCall || eb.NoCall {
		switch e.Name {
		case "==", "!=", "<", "<=", ">", ">=":
			return SVal{T: False, Typ: tb}
		}
		return SVal{NoCall: true}
	}
	a, b := env.unify(ea, eb)
	if a.T == nil || b.T == nil {
		if a.T == nil && b.T == nil {
			return SVal{T: BoolLit(e.Name == "=="), Typ: tb}
		}
		env.fail("operand without value in %v", e)
	}
	switch e.Name {
	case "==", "!=":
		var r *Term
		if a.Math || a.Typ == nil || b.Typ == nil {
			r = Eq(a.T, b.T)
		} else {
			r = fv.goEqual(env.st, a.T, b.T, a.Typ)
		}
		if e.Name == "!=" {
			r = Not(r)
		}
		return SVal{T: r, Typ: tb}
	case "<", "<=", ">", ">=":
		op := map[string]token.Token{"<": token.LSS, "<=": token.LEQ, ">": token.GTR, ">=": token.GEQ}[e.Name]
		if c.BV && a.T.Sort.BVWidth > 0 {
			return SVal{T: c.Cmp(op, a.T, b.T, a.Typ), Typ: tb}
		}
		if a.T.Sort != SInt {
			// Currency and other ordered opaque types
			return SVal{T: fv.orderedCmp(e.Name, a, b), Typ: tb}
		}
		return SVal{T: intCmp(e.Name, a.T, b.T), Typ: tb}
	}
	// arithmetic: mathematical in LIA mode, machine in BV mode
	rt := a.Typ
	if a.Untyped && b.Untyped {
		ra, rb := resolve(a.T).Int, resolve(b.T).Int
		r := new(big.Int)
		switch e.Name {
		case "+":
			r.Add(ra, rb)
		case "-":
			r.Sub(ra, rb)
		case "*":
			r.Mul(ra, rb)
		case "/":
			r.Quo(ra, rb)
		case "%":
			r.Rem(ra, rb)
		case "<<":
			r.Lsh(ra, uint(rb.Int64()))
		case ">>":
			r.Rsh(ra, uint(rb.Int64()))
		default:
			env.fail("untyped op %s", e.Name)
		}
		return SVal{T: BigLit(r, SInt), Typ: a.Typ, Untyped: true}
	}
	if c.BV && a.T.Sort.BVWidth > 0 {
		op := map[string]token.Token{"+": token.ADD, "-": token.SUB, "*": token.MUL, "/": token.QUO, "%": token.REM, "&": token.AND, "|": token.OR, "^": token.XOR, "<<": token.SHL, ">>": token.SHR, "&^": token.AND_NOT}[e.Name]
		return SVal{T: c.Bin(op, a.T, b.T, a.Typ, b.Typ), Typ: rt}
	}
	if a.T.Sort != SInt {
		// arithmetic on abstract numeric types (types.Currency): spec-level functions
		return SVal{T: c.Func("num_"+sanitize(e.Name)+"_"+a.T.Sort.Name, a.T.Sort, a.T, b.T), Typ: rt}
	}
	switch e.Name {
	case "+":
		return SVal{T: IAdd(a.T, b.T), Typ: rt}
	case "-":
		return SVal{T: ISub(a.T, b.T), Typ: rt}
	case "*":
		return SVal{T: IMul(a.T, b.T), Typ: rt}
	case "/":
		return SVal{T: mk("div", SInt, a.T, b.T), Typ: rt}
	case "%":
		return SVal{T: mk("mod", SInt, a.T, b.T), Typ: rt}
	}
	op := map[string]token.Token{"&": token.AND, "|": token.OR, "^": token.XOR, "<<": token.SHL, ">>": token.SHR, "&^": token.AND_NOT}[e.Name]
	return SVal{T: c.Bin(op, a.T, b.T, a.Typ, b.Typ), Typ: rt}
}

func (fv *FuncVer) orderedCmp(op string, a, b SVal) *Term {
	c := fv.ctx
	lt := func(x, y *Term) *Term { return c.Func("lt_"+x.Sort.Name, SBool, x, y) }
	switch op {
	case "<":
		return lt(a.T, b.T)
	case ">":
		return lt(b.T, a.T)
	case "<=":
		return Not(lt(b.T, a.T))
	}
	return Not(lt(a.T, b.T))
}

func (env *SpecEnv) call(e *SExpr) SVal {
	fv := env.fv
	c := fv.ctx
	fe := e.Args[0]
	args := e.Args[1:]
	if fe.Op == "ident" {
		switch fe.Name {
		case "called", "calledOK", "mayHaveCalled", "callarg", "callres", "ncalls", "calledBefore":
			// guard against silently vacuous specs: the name must denote something callable
			for i, a := range args {
				if a.Op == "str" && (i == 0 || fe.Name == "calledBefore") && !fv.eng.knownCallName(a.Val) {
					env.fail("%s(%q): no function, method or callback of that name exists", fe.Name, a.Val)
				}
			}
		}
	}
	if fe.Op == "ident" {
		switch fe.Name {
		case "len", "cap":
			x := env.eval(args[0])
			if x.NoCall {
				return x
			}
			if x.Math {
				env.fail("len of ghost map")
			}
			switch u := types.Unalias(x.Typ).Underlying().(type) {
			case *types.Slice:
				if fe.Name == "cap" {
					return SVal{T: Field(x.T, 3), Typ: types.Typ[types.Int]}
				}
				return SVal{T: Field(x.T, 2), Typ: types.Typ[types.Int]}
			case *types.Map:
				return SVal{T: fv.mapLen(env.st, x.T, u), Typ: types.Typ[types.Int]}
			case *types.Array:
				return SVal{T: c.WLit(u.Len()), Typ: types.Typ[types.Int]}
			case *types.Basic:
				return SVal{T: c.StrLen(x.T), Typ: types.Typ[types.Int]}
			}
			env.fail("len of %s", x.Typ)
		case "ite":
			cnd := fv.evalBool(env, args[0])
			ea, eb := env.eval(args[1]), env.eval(args[2])
			if ea.NoCall {
				return ea
			}
			if eb.NoCall {
				return eb
			}
			a, b := env.unify(ea, eb)
			return SVal{T: Ite(cnd, a.T, b.T), Typ: a.Typ, Math: a.Math}
		case "visited", "atstart":
			if env.visited == nil {
				env.fail("visited() outside a map-range loop invariant")
			}
			k := env.coerce(env.eval(args[0]), env.visitedKey)
			if fe.Name == "atstart" {
				return SVal{T: Select(env.iterStart, k.T), Typ: types.Typ[types.Bool]}
			}
			return SVal{T: Select(env.visited, k.T), Typ: types.Typ[types.Bool]}
		case "elemsUnchangedExcept":
			// every element of the backing stores of p's element type outside p's range is as in old()
			x := env.eval(args[0])
			sl, ok := types.Unalias(x.Typ).Underlying().(*types.Slice)
			if !ok || env.old == nil {
				env.fail("elemsUnchangedExcept needs a slice and an old state")
			}
			key, hs := fv.elemsKey(sl.Elem())
			cur, old := fv.heap(env.st, key, hs), fv.heap(env.old, key, hs)
			if sameTerm(cur, old) {
				return SVal{T: True, Typ: types.Typ[types.Bool]}
			}
			r := BoundVar("r_q", SInt)
			j := BoundVar("j_q", c.W)
			lo := Field(x.T, 1)
			hi := c.WAdd(lo, Field(x.T, 2))
			inside := And(Eq(r, Field(x.T, 0)), c.WLe(lo, j), c.WLt(j, hi))
			body := Implies(Not(inside), Eq(Select(Select(cur, r), j), Select(Select(old, r), j)))
			return SVal{T: Forall([]*Term{r, j}, body, Select(Select(cur, r), j)), Typ: types.Typ[types.Bool]}
		case "frameRows":
			// loop frame for element stores: each listed slice still has the backing array it had
			// on loop entry or one allocated since, and every other array allocated before the
			// loop holds what it held on loop entry. Checked like any invariant.
			le := fv.loopEntry
			if le == nil {
				env.fail("frameRows() is only available in loop invariants")
			}
			ne := *env
			ne.st = le
			if env.frame != nil {
				ne.frame = nil
				for _, f := range le.frames {
					if f.id == env.frame.id {
						ne.frame = f
					}
				}
			}
			var conj []*Term
			byKey := map[string][]*Term{}
			sorts := map[string]*Sort{}
			var order []string
			for _, a := range args {
				x := env.eval(a)
				x0 := ne.eval(a)
				sl, ok := types.Unalias(x.Typ).Underlying().(*types.Slice)
				if !ok {
					env.fail("frameRows needs slices")
				}
				key, hs := fv.elemsKey(sl.Elem())
				if _, ok := byKey[key]; !ok {
					order = append(order, key)
				}
				sorts[key] = hs
				byKey[key] = append(byKey[key], Field(x0.T, 0))
				conj = append(conj, Or(Eq(Field(x.T, 0), Field(x0.T, 0)), ILe(le.nextRef, Field(x.T, 0))))
			}
			for _, key := range order {
				hs := sorts[key]
				cur, old := fv.heap(env.st, key, hs), fv.heap(le, key, hs)
				if sameTerm(cur, old) {
					continue
				}
				r := BoundVar("r_q", SInt)
				j := BoundVar("j_q", c.W)
				guard := []*Term{ILe(IntLit(0), r), ILt(r, le.nextRef)}
				for _, b := range byKey[key] {
					guard = append(guard, Not(Eq(r, b)))
				}
				body := Implies(And(guard...), Eq(Select(Select(cur, r), j), Select(Select(old, r), j)))
				conj = append(conj, Forall([]*Term{r, j}, body, Select(Select(cur, r), j)))
			}
			return SVal{T: And(conj...), Typ: types.Typ[types.Bool]}
		case "snapshot":
			// the current contents of a Go map as a mathematical map value
			x := env.eval(args[0])
			mt, ok := types.Unalias(x.Typ).Underlying().(*types.Map)
			if !ok {
				env.fail("snapshot needs a map")
			}
			g := &Block{Kind: "ghost", Name: "snap", Result: ""}
			_ = g
			srt := fv.mathMapSort(mt)
			fv.nilMapFacts(env.st, mt)
			return SVal{T: MkDT(srt, fv.mapHas(env.st, x.T, mt), fv.mapVals(env.st, x.T, mt)), Typ: x.Typ, Math: true}
		case "sameArray":
			// two slices share their backing array
			a, b := env.eval(args[0]), env.eval(args[1])
			if a.NoCall || b.NoCall || a.T == nil || b.T == nil {
				return SVal{T: False, Typ: types.Typ[types.Bool]}
			}
			return SVal{T: And(Eq(Field(a.T, 0), Field(b.T, 0)), Not(Eq(Field(a.T, 0), IntLit(0)))), Typ: types.Typ[types.Bool]}
		case "closed", "closeonly":
			// channel predicates: closed(c) = c has been closed; closeonly(c) = nothing is ever sent on c
			x := env.eval(args[0])
			if x.T == nil || x.T.Sort != SInt {
				env.fail("%s() needs a channel", fe.Name)
			}
			arr := fv.chanClosed(env.st)
			if fe.Name == "closeonly" {
				arr = fv.closeOnly()
			}
			return SVal{T: Select(arr, x.T), Typ: types.Typ[types.Bool]}
		case "same":
			// logical identity of two values of the same type (all fields, whole arrays); Go's ==
			// compares arrays element by element, which does not give congruence under
			// uninterpreted functions
			a, b := env.eval(args[0]), env.eval(args[1])
			if a.NoCall {
				return a
			}
			if b.NoCall {
				return b
			}
			if a.T == nil || b.T == nil || a.T.Sort != b.T.Sort {
				env.fail("same() needs two values of one type")
			}
			return SVal{T: Eq(a.T, b.T), Typ: types.Typ[types.Bool]}
		case "fresh":
			// the slice is nil or its backing array was allocated during this call
			x := env.eval(args[0])
			if env.old == nil {
				env.fail("fresh() needs the entry state")
			}
			return SVal{T: Or(Eq(Field(x.T, 0), IntLit(0)), ILe(env.old.nextRef, Field(x.T, 0))), Typ: types.Typ[types.Bool]}
		case "allocated":
			x := env.eval(args[0])
			return SVal{T: And(ILe(IntLit(0), x.T), ILt(x.T, env.st.nextRef)), Typ: types.Typ[types.Bool]}
		case "string":
			x := env.eval(args[0])
			if sl, ok := types.Unalias(x.Typ).Underlying().(*types.Slice); ok {
				return SVal{T: fv.bytesToString(env.st, x.T, sl.Elem()), Typ: types.Typ[types.String]}
			}
			return x
		case "callarg", "callres":
			// the k-th argument (receiver first) / result of the last definite call of that name on this path
			name := args[0].Val
			k := 0
			if len(args) > 1 {
				kv := env.eval(args[1])
				k = int(resolve(kv.T).Int.Int64())
			}
			for i := len(env.st.events) - 1; i >= 0; i-- {
				ev := env.st.events[i]
				if ev.Maybe || !(ev.Name == name || strings.HasSuffix(ev.Name, "."+name) || strings.HasSuffix(ev.Name, ")."+name)) {
					continue
				}
				ts, tys := ev.Args, ev.ArgTypes
				if fe.Name == "callres" {
					ts, tys = ev.Results, ev.ResTypes
				}
				if k < len(ts) && k < len(tys) && tys[k] != nil {
					return SVal{T: ts[k], Typ: tys[k]}
				}
				env.fail("%s(%q, %d): no such argument/result", fe.Name, name, k)
			}
			// no such call on this path: comparisons with this value are false
			return SVal{NoCall: true}
		case "calledBefore":
			// a definite call of the first name precedes every possible call of the second
			a, b := args[0].Val, args[1].Val
			match := func(ev Event, name string) bool {
				return ev.Name == name || strings.HasSuffix(ev.Name, "."+name) || strings.HasSuffix(ev.Name, ")."+name)
			}
			first := -1
			for i, ev := range env.st.events {
				if !ev.Maybe && match(ev, a) {
					first = i
					break
				}
			}
			ok := first >= 0
			for i, ev := range env.st.events {
				if match(ev, b) && i < first {
					ok = false
				}
			}
			return SVal{T: BoolLit(ok), Typ: types.Typ[types.Bool]}
		case "arglocal":
			// (callback contracts) argument i of the callback call points into a local variable of
			// the function under verification (a copy), not into the heap or a slice
			i, err := strconv.Atoi(args[0].Val)
			if err != nil || i < 0 || i >= len(env.rawArgs) {
				env.fail("arglocal(i): i must be the index of a callback argument")
			}
			l, ok := env.rawArgs[i].(*Loc)
			// a local that escapes (its address is taken and handed on) is a heap object
			// allocated by this very function: local all the same
			local := ok && (l.Kind == rootCell || (l.Kind == rootHeap && l.Ref != nil && isFreshRef(l.Ref)))
			return SVal{T: BoolLit(local), Typ: types.Typ[types.Bool]}
		case "derefarg":
			// (callback contracts) the value argument i of the callback call points to (also for
			// interior pointers, which have no term of their own)
			i, err := strconv.Atoi(args[0].Val)
			if err != nil || i < 0 || i >= len(env.rawArgs) {
				env.fail("derefarg(i): i must be the index of a callback argument")
			}
			switch a := env.rawArgs[i].(type) {
			case *Loc:
				if t, ok := fv.load(env.st, a).(*Term); ok {
					return SVal{T: t, Typ: a.ElTyp}
				}
			case *Term:
				if pt, ok := types.Unalias(fv.curCallbackSig.Params().At(i).Type()).Underlying().(*types.Pointer); ok {
					l := fv.locOf(a, pt.Elem())
					if t, ok := fv.load(env.st, l).(*Term); ok {
						return SVal{T: t, Typ: pt.Elem()}
					}
				}
			}
			env.fail("derefarg(%d): not a pointer to a value", i)
		case "infunc":
			// (call-site conditions) the function making the call is the named one
			name := args[0].Val
			top := callerFrame(env.st).fn
			ok := top.Name() == name || strings.HasSuffix(top.String(), "."+name) || strings.HasSuffix(top.String(), ")."+name)
			return SVal{T: BoolLit(ok), Typ: types.Typ[types.Bool]}
		case "callerlocal":
			// (call-site conditions) a parameter or local of the function making the call; a
			// caller without such a variable makes every comparison with it false
			name := args[0].Val
			f := callerFrame(env.st)
			// the current value first (a parameter whose address is taken lives in a cell)
			fe2 := fv.frameEnv(env.st, f)
			if v, ok := fe2.local(name); ok {
				return v
			}
			for i, p := range f.fn.Params {
				if p.Name() == name {
					if t, ok := f.regs[f.fn.Params[i]].(*Term); ok {
						return SVal{T: t, Typ: p.Type()}
					}
				}
			}
			return SVal{NoCall: true, Typ: types.Typ[types.Bool]}
		case "mayHaveCalled":
			// true unless no call of that name can have happened on this path (loops included)
			name := args[0].Val
			for _, ev := range env.st.events {
				if ev.Name == name || strings.HasSuffix(ev.Name, "."+name) || strings.HasSuffix(ev.Name, ")."+name) || strings.HasSuffix(ev.Name, ":"+name) {
					return SVal{T: True, Typ: types.Typ[types.Bool]}
				}
			}
			return SVal{T: False, Typ: types.Typ[types.Bool]}
		case "called", "calledOK":
			// called("Name") : an event with that callee name definitely occurred on this path
			name := args[0].Val
			for _, ev := range env.st.events {
				if ev.Maybe {
					continue
				}
				if ev.Name == name || strings.HasSuffix(ev.Name, "."+name) || strings.HasSuffix(ev.Name, ")."+name) {
					return SVal{T: True, Typ: types.Typ[types.Bool]}
				}
			}
			return SVal{T: False, Typ: types.Typ[types.Bool]}
		case "ncalls":
			name := args[0].Val
			n := 0
			for _, ev := range env.st.events {
				if ev.Maybe {
					env.fail("ncalls(%q) after a loop that may call it", name)
				}
				if ev.Name == name || strings.HasSuffix(ev.Name, "."+name) || strings.HasSuffix(ev.Name, ")."+name) {
					n++
				}
			}
			return SVal{T: IntLit(int64(n)), Typ: types.Typ[types.UntypedInt], Untyped: true}
		case "remove":
			m := env.eval(args[0])
			k := env.coerce(env.eval(args[1]), mathKey(m.Typ))
			return SVal{T: MkDT(m.T.Sort, Store(Field(m.T, 0), k.T, False), Store(Field(m.T, 1), k.T, fv.ctx.Zero(mathElem(m.Typ)))), Typ: m.Typ, Math: true}
		}
		if p, ok := fv.eng.preds[fe.Name]; ok {
			return env.expandPred(p, args)
		}
		if sf, ok := fv.eng.specFuncs[fe.Name]; ok {
			return env.applySpecFunc(sf, args)
		}
		// conversion T(x)
		if tv, ok := env.tryType(fe); ok && len(args) == 1 {
			return env.convertTo(env.eval(args[0]), tv)
		}
	}
	if fe.Op == "sel" || fe.Op == "ident" {
		if tv, ok := env.tryType(fe); ok && len(args) == 1 {
			return env.convertTo(env.eval(args[0]), tv)
		}
	}
	f := env.eval(fe)
	if f.NoCall {
		return f
	}
	if f.IsType && len(args) == 1 {
		return env.convertTo(env.eval(args[0]), f.Typ)
	}
	if f.Fn == nil {
		env.fail("call of non-function %v", fe)
	}
	return env.applyGoFunc(f, args)
}

func (env *SpecEnv) tryType(e *SExpr) (t types.Type, ok bool) {
	defer func() {
		if r := recover(); r != nil {
			ok = false
		}
	}()
	v := env.eval(e)
	if v.IsType {
		return v.Typ, true
	}
	return nil, false
}

func (env *SpecEnv) convertTo(x SVal, t types.Type) SVal {
	if x.NoCall {
		return x // result of a call that did not happen on this path
	}

	c := env.fv.ctx
	if x.Untyped {
		return env.coerce(x, t)
	}
	if isIntType(x.Typ) && isIntType(t) {
		if c.BV {
			return SVal{T: c.ConvertInt(x.T, x.Typ, t), Typ: t}
		}
		return SVal{T: x.T, Typ: t} // mathematical in specs
	}
	v := env.fv.changeType(env.st, x.T, x.Typ, t)
	return SVal{T: v.(*Term), Typ: t}
}

func (env *SpecEnv) expandPred(p *Block, args []*SExpr) SVal {
	if len(args) != len(p.Params) {
		env.fail("pred %s: want %d args", p.Name, len(p.Params))
	}
	ne := *env
	ne.vars = map[string]SVal{}
	for k, v := range env.vars {
		ne.vars[k] = v
	}
	ne.frame = nil
	ne.pkg = env.fv.eng.pkgOfBlock(p)
	for i, prm := range p.Params {
		v := env.eval(args[i])
		if prm.Type != "" && v.Untyped {
			v = env.coerce(v, env.fv.eng.parseType(prm.Type, ne.pkg))
		}
		ne.vars[prm.Name] = v
	}
	return ne.eval(p.Body)
}

func (env *SpecEnv) applySpecFunc(sf *Block, args []*SExpr) SVal {
	fv := env.fv
	pkg := fv.eng.pkgOfBlock(sf)
	if len(args) != len(sf.Params) {
		env.fail("spec func %s: want %d args, got %d", sf.Name, len(sf.Params), len(args))
	}
	var ts []*Term
	for i, a := range args {
		v := env.eval(a)
		pt := fv.eng.parseType(sf.Params[i].Type, pkg)
		v = env.coerce(v, pt)
		if v.T == nil {
			env.fail("spec func %s: argument %d has no value", sf.Name, i)
		}
		if v.T.Sort != fv.ctx.SortOf(pt) && !v.Math {
			if isIntType(pt) && isIntType(v.Typ) && fv.ctx.BV {
				v = SVal{T: fv.ctx.ConvertInt(v.T, v.Typ, pt), Typ: pt}
			} else {
				env.fail("spec func %s: argument %d has sort %s, want %s", sf.Name, i, v.T.Sort, fv.ctx.SortOf(pt))
			}
		}
		ts = append(ts, v.T)
	}
	rt := fv.eng.parseType(sf.Result, pkg)
	if sf.Has("heap") {
		// heap-dependent spec function: also a function of the named heap snapshots
	}
	return SVal{T: fv.ctx.Func("spec_"+sf.Name, fv.ctx.SortOf(rt), ts...), Typ: rt}
}

// applyGoFunc: a Go function or method used inside a spec. It must be declared
// `pure` (extern or func block); the application is the same uninterpreted
// function that a call in code produces.
func (env *SpecEnv) applyGoFunc(f SVal, args []*SExpr) SVal {
	fv := env.fv
	sfn := fv.eng.prog.FuncValue(f.Fn)
	if sfn == nil {
		env.fail("no SSA function for %s", f.Fn.FullName())
	}
	blk := fv.eng.funcBlock(sfn)
	if blk == nil || !blk.Has("pure") {
		env.fail("function %s used in a spec must be declared pure (add: //@ extern %s pure)", sfn.String(), sfn.String())
	}
	sig := sfn.Signature
	var ats []*Term
	var names []pname
	for _, p := range sfn.Params {
		names = append(names, pname{p.Name(), p.Type()})
	}
	i := 0
	if f.Recv != nil && f.Recv.NoCall {
		return *f.Recv
	}
	if f.Recv != nil {
		rv := *f.Recv
		// pure functions depend on the pointee: a pointer receiver is read through
		want := names[0].typ
		_, wantPtr := types.Unalias(want).Underlying().(*types.Pointer)
		pt, isPtr := types.Unalias(rv.Typ).Underlying().(*types.Pointer)
		switch {
		case wantPtr && isPtr, !wantPtr && isPtr:
			l := fv.locOf(rv.T, pt.Elem())
			rv = SVal{T: fv.load(env.st, l).(*Term), Typ: pt.Elem()}
			ats = append(ats, rv.T)
		case wantPtr && !isPtr:
			ats = append(ats, rv.T)
		default:
			ats = append(ats, fv.pureArg(env.st, rv.T, names, 0)...)
		}
		i = 1
	}
	for j, a := range args {
		v := env.eval(a)
		if v.NoCall {
			return v // an argument is the result of a call that did not happen on this path
		}
		if i+j < len(names) {
			v = env.coerce(v, names[i+j].typ)
			if pt, ok := types.Unalias(names[i+j].typ).Underlying().(*types.Pointer); ok {
				if _, isPtr := types.Unalias(v.Typ).Underlying().(*types.Pointer); isPtr {
					l := fv.locOf(v.T, pt.Elem())
					ats = append(ats, fv.load(env.st, l).(*Term))
					continue
				}
			}
		}
		ats = append(ats, fv.pureArg(env.st, v.T, names, i+j)...)
	}
	rs := sig.Results()
	if rs.Len() == 0 {
		env.fail("pure function %s has no result", sfn.String())
	}
	rt := rs.At(0).Type()
	if rs.Len() > 1 {
		// in a spec, a pure function with several results denotes its first result
		return SVal{T: fv.ctx.Func("pure0_"+sfn.String(), fv.ctx.SortOf(rt), ats...), Typ: rt}
	}
	return SVal{T: fv.ctx.Func("pure_"+sfn.String(), fv.ctx.SortOf(rt), ats...), Typ: rt}
}

// ---------------------------------------------------------------------------
// ghost state

type ghostLocal struct {
	typ  types.Type
	math bool
	init *Term
}

func (fv *FuncVer) declareGhostLocals() {
	fv.ghostLocals = map[string]*ghostLocal{}
	for _, cl := range fv.block.ClausesOf("ghostvar") {
		name, typ := splitWord(cl.Text)
		g := &Block{Kind: "ghost", Name: name, Result: typ}
		fv.eng.blockPkg[g] = fv.eng.pkgOfBlock(fv.block)
		s, t, math := fv.ghostSort(g)
		gl := &ghostLocal{typ: t, math: math}
		if math {
			mt := types.Unalias(t).Underlying().(*types.Map)
			gl.init = MkDT(s, ConstArray(s.DT.Fields[0].Sort, False), ConstArray(s.DT.Fields[1].Sort, fv.ctx.Zero(mt.Elem())))
		} else {
			gl.init = fv.ctx.Zero(t)
		}
		fv.ghostLocals[name] = gl
	}
}

func (fv *FuncVer) mathMapSort(mt *types.Map) *Sort {
	c := fv.ctx
	ks, es := c.SortOf(mt.Key()), c.SortOf(mt.Elem())
	name := "MM_" + sanitize(ks.Name) + "_" + sanitize(es.Name)
	if s, ok := c.sorts["math:"+name]; ok {
		return s
	}
	hs, vs := c.ArraySort(ks, SBool), c.ArraySort(ks, es)
	s := &Sort{Name: name}
	s.DT = &Datatype{Ctor: "mk-" + name, Fields: []DTField{{name + ".has", hs}, {name + ".val", vs}}}
	s.sym = c.addSym(name, fmt.Sprintf("(declare-datatypes ((%s 0)) (((mk-%s (%s.has %s) (%s.val %s)))))", name, name, name, hs.Name, name, vs.Name), sortDeps(hs, vs)...)
	c.sorts["math:"+name] = s
	return s
}

func (fv *FuncVer) ghostSort(g *Block) (*Sort, types.Type, bool) {
	t := fv.eng.parseType(g.Result, fv.eng.pkgOfBlock(g))
	if mt, ok := types.Unalias(t).Underlying().(*types.Map); ok {
		return fv.mathMapSort(mt), t, true
	}
	return fv.ctx.SortOf(t), t, false
}

func (fv *FuncVer) ghostValue(st *State, g *Block) *Term {
	key := "ghost:" + g.Name
	if v, ok := st.globals[key]; ok {
		return v
	}
	s, gt, math := fv.ghostSort(g)
	v := fv.ctx.Const("ghost0_"+g.Name, s)
	st.globals[key] = v
	if math {
		// canonical form: absent keys carry the zero value (so that add-then-remove restores equality)
		mt := types.Unalias(gt).Underlying().(*types.Map)
		k := BoundVar("k_q", fv.ctx.SortOf(mt.Key()))
		fv.ghostAxioms = append(fv.ghostAxioms, Forall([]*Term{k}, Implies(Not(Select(Field(v, 0), k)), Eq(Select(Field(v, 1), k), fv.ctx.Zero(mt.Elem()))), Select(Field(v, 1), k)))
	}
	if st.old != nil && st.old != st {
		if _, ok := st.old.globals[key]; !ok {
			st.old.globals[key] = v
		}
	}
	return v
}

func (fv *FuncVer) ghostSVal(st *State, g *Block) SVal {
	_, t, math := fv.ghostSort(g)
	return SVal{T: fv.ghostValue(st, g), Typ: t, Math: math}
}

// callerFrame: the frame of the source function making a call -- compiler-made wrappers (bound
// method closures, thunks) are looked through.
func callerFrame(st *State) *Frame {
	for i := len(st.frames) - 1; i >= 0; i-- {
		if st.frames[i].fn.Synthetic == "" {
			return st.frames[i]
		}
	}
	return st.top()
}
