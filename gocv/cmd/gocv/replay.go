package main

// Replay of solver models against the real code (DESIGN 2.11). Per-property
// templates are registered in replayers; without one the violation line ends
// with no-failing-input-found.

type replayer func(name string, r *oblResult, replayFile, repo, verif string) bool

var replayers = map[string]replayer{}

func tryReplay(prop, name string, r *oblResult, replayFile, repo, verif string) bool {
	if f, ok := replayers[prop]; ok {
		return f(name, r, replayFile, repo, verif)
	}
	return false
}
