package main

// Replay of failed obligations against the real code (DESIGN 2.11) and bounded
// stand-ins (DESIGN 2.13). Both run in-package Go tests from
// /verif/replay/templates through `go test -overlay`, so nothing is written to
// the repository.

import (
	"context"
	"encoding/json"
	"fmt"
	"os"
	"os/exec"
	"path/filepath"
	"regexp"
	"strconv"
	"strings"
	"time"
)

type replayEntry struct {
	Match    string            `json:"match"`    // obligation name prefix/substring
	Property string            `json:"property"` // for bounded entries
	Template string            `json:"template"`
	Target   string            `json:"target"` // file name inside PkgDir the template is injected as
	PkgDir   string            `json:"pkgdir"` // relative to repo root
	Run      string            `json:"run"`
	Env      map[string]string `json:"env"`
	Bounded  bool              `json:"bounded"`
	Bound    string            `json:"bound"`
	Name     string            `json:"name"`
	Tier     string            `json:"tier"` // bounded: "quick" runs in both tiers
}

func readReplayIndex(verif string) []replayEntry {
	data, err := os.ReadFile(filepath.Join(verif, "replay", "index.json"))
	if err != nil {
		return nil
	}
	var out []replayEntry
	if err := json.Unmarshal(data, &out); err != nil {
		fmt.Fprintln(os.Stderr, "gocv: bad replay/index.json:", err)
	}
	return out
}

type replayOutcome struct {
	ran      bool
	failed   bool // the test failed: the violation is reproduced on the real code
	output   string
	cmd      string
	cases    int
	failures int
}

func runTemplate(e replayEntry, repo, verif, outDir, tag string, extraEnv map[string]string) replayOutcome {
	os.MkdirAll(outDir, 0o755)
	tmpl := filepath.Join(verif, "replay", "templates", e.Template)
	if _, err := os.Stat(tmpl); err != nil {
		return replayOutcome{}
	}
	ov := map[string]map[string]string{"Replace": {filepath.Join(repo, e.PkgDir, e.Target): tmpl}}
	ovPath := filepath.Join(outDir, fileSafe(tag)+".overlay.json")
	data, _ := json.Marshal(ov)
	os.WriteFile(ovPath, data, 0o644)
	ctx, cancel := context.WithTimeout(context.Background(), 15*time.Minute)
	defer cancel()
	args := []string{"test", "-overlay", ovPath, "-vet=off", "-count=1", "-timeout", "600s", "-run", "^" + e.Run + "$", "-v", "./" + e.PkgDir}
	cmd := exec.CommandContext(ctx, "go", args...)
	cmd.Dir = repo
	cmd.Env = os.Environ()
	var envs []string
	for k, v := range e.Env {
		cmd.Env = append(cmd.Env, k+"="+v)
		envs = append(envs, k+"="+v)
	}
	for k, v := range extraEnv {
		cmd.Env = append(cmd.Env, k+"="+v)
		envs = append(envs, k+"="+v)
	}
	out, err := cmd.CombinedOutput()
	o := replayOutcome{ran: true, output: string(out), cmd: fmt.Sprintf("cd %s && %s go %s", repo, strings.Join(envs, " "), strings.Join(args, " "))}
	if m := regexp.MustCompile(`GOCV-BOUNDED sequences=(\d+) failures=(\d+)`).FindStringSubmatch(o.output); m != nil {
		o.cases, _ = strconv.Atoi(m[1])
		o.failures, _ = strconv.Atoi(m[2])
	} else if m := regexp.MustCompile(`GOCV-BOUNDED cases=(\d+) failures=(\d+)`).FindStringSubmatch(o.output); m != nil {
		o.cases, _ = strconv.Atoi(m[1])
		o.failures, _ = strconv.Atoi(m[2])
	}
	if err != nil && strings.Contains(o.output, "GOCV-REPLAY-FAIL") {
		o.failed = true
	} else if err != nil && !strings.Contains(o.output, "--- FAIL") && !strings.Contains(o.output, "--- PASS") {
		// build problem or timeout: not a reproduction
		o.output += "\n(replay could not be executed: " + err.Error() + ")"
	} else if err != nil && strings.Contains(o.output, "--- FAIL") {
		o.failed = true
	}
	return o
}

func tryReplay(prop, name string, r *oblResult, replayFile, repo, verif string) bool {
	for _, e := range readReplayIndex(verif) {
		if e.Bounded || e.Match == "" || !strings.Contains(name, e.Match) {
			continue
		}
		o := runTemplate(e, repo, verif, filepath.Dir(replayFile), name, modelEnv(r))
		if !o.ran {
			continue
		}
		f, _ := os.OpenFile(replayFile, os.O_APPEND|os.O_WRONLY, 0o644)
		if f != nil {
			fmt.Fprintf(f, "\n---- replay against the real code ----\ncommand: %s\nreproduced: %v\n%s\n", o.cmd, o.failed, trunc(o.output, 20000))
			f.Close()
		}
		if o.failed {
			return true
		}
	}
	return false
}

// modelEnv exposes simple scalar model values to the replay template.
func modelEnv(r *oblResult) map[string]string {
	out := map[string]string{}
	if r == nil || r.failQuery == nil {
		return out
	}
	out["GOCV_OBLIGATION"] = r.Name
	return out
}

type boundedResult struct {
	Name     string `json:"name"`
	Bound    string `json:"bound"`
	Cases    int    `json:"cases"`
	Failures int    `json:"failures"`
	Cmd      string `json:"cmd"`
	Ran      bool   `json:"ran"`
	failed   bool
	output   string
}

func runBounded(prop, tier, repo, verif, outRoot string) []boundedResult {
	var out []boundedResult
	for _, e := range readReplayIndex(verif) {
		if !e.Bounded || e.Property != prop {
			continue
		}
		if tier == "quick" && e.Tier != "quick" {
			continue
		}
		o := runTemplate(e, repo, verif, filepath.Join(outRoot, "out", "replay", prop), "bounded_"+e.Name, nil)
		out = append(out, boundedResult{Name: e.Name, Bound: e.Bound, Cases: o.cases, Failures: o.failures, Cmd: o.cmd, Ran: o.ran, failed: o.failed, output: o.output})
	}
	return out
}
