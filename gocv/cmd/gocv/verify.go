package main

import (
	"sort"
	"fmt"
	"go/token"
	"go/types"
	"strconv"
	"strings"

	"golang.org/x/tools/go/ssa"
)

// verifyFunc generates the obligations of one function under contract.
// aspectsOf: the aspect tags ("label@aspect") used by the clauses of a contract block. Clauses of
// an aspect are proved in a pass of their own, in which only they and the untagged clauses are
// present (the untagged ones as assumptions: they are proved in the default pass). This keeps the
// queries of independent parts of a large contract apart.
func aspectsOf(blk *Block) []string {
	seen := map[string]bool{}
	var out []string
	add := func(name string) {
		if i := strings.Index(name, "@"); i >= 0 {
			for _, a := range strings.Split(name[i+1:], ",") {
				if a != "" && !seen[a] {
					seen[a] = true
					out = append(out, a)
				}
			}
		}
	}
	for _, cl := range blk.Clauses {
		add(cl.Name)
	}
	for _, l := range blk.Loops {
		for _, cl := range l.Invariants {
			add(cl.Name)
		}
	}
	sort.Strings(out)
	return out
}

// clauseActive: is a clause with this label part of the current pass?
func (fv *FuncVer) clauseActive(label string) bool {
	i := strings.Index(label, "@")
	if i < 0 {
		return true
	}
	// "label@a,b": proved in pass a (the first one), assumed in passes a and b
	for _, a := range strings.Split(label[i+1:], ",") {
		if a == fv.aspect {
			return true
		}
	}
	return false
}

func (e *Engine) verifyFunc(blk *Block, prop string) (fv *FuncVer, err error) {
	return e.verifyFuncAspect(blk, prop, "")
}

func (e *Engine) verifyFuncAspect(blk *Block, prop, aspect string) (fv *FuncVer, err error) {
	fn := e.funcs[blk.Flags["resolved"]]
	if fn == nil || fn.Blocks == nil {
		return nil, fmt.Errorf("no body for %s", blk.Name)
	}
	bv := strings.HasPrefix(blk.Flags["mode"], "bv")
	fv = &FuncVer{eng: e, ctx: NewCtx(bv), fn: fn, block: blk, obls: map[string]*Obligation{}, maxPaths: 4096,
		loopInfos: map[*ssa.Function]*loopAnalysis{}, prop: prop, trustedCalls: map[string]bool{}, heapSorts: map[string]*Sort{}, heapTypes: map[string]types.Type{}, mapKeySorts: map[string]*Sort{}, hookFired: map[*Clause]bool{}, stepBudget: 4_000_000}
	if mp, ok := blk.Flags["maxpaths"]; ok {
		if n, err := strconv.Atoi(mp); err == nil {
			fv.maxPaths = n
		}
	}
	_, fv.nopanic = blk.Flags["nopanic"]
	if v := strings.TrimSpace(blk.Flags["nopanic"]); v != "" {
		// `nopanic divzero,bounds`: only these kinds of safety obligations (for functions whose
		// pointer safety depends on state the checker havocs, e.g. after a go statement)
		fv.nopanic = false
		fv.nopanicKinds = map[string]bool{}
		for _, k := range strings.Fields(strings.ReplaceAll(v, ",", " ")) {
			fv.nopanicKinds[k] = true
		}
	}
	fv.aspect = aspect
	if aspect != "" {
		fv.nopanic = false // safety obligations belong to the default pass
		fv.nopanicKinds = nil
	}
	defer func() {
		if r := recover(); r != nil {
			switch x := r.(type) {
			case specError:
				err = fmt.Errorf("%s: spec error: %s", blk.Name, string(x))
			default:
				panic(r)
			}
		}
	}()
	// a loop contract that names no loop of the function would be silently ignored
	var loopSpecMissing []string
	var loopSpecNames [][2]string
	{
		loops := e.astLoops(topFunc(fn))
		for _, ls := range blk.Loops {
			found := false
			for _, l := range loops {
				if (l.key == ls.Key && l.ordinal == ls.Ordinal) || (l.kindKey == ls.Key && l.kindOrdinal == ls.Ordinal) {
					found = true
					break
				}
			}
			if !found {
				var have []string
				for _, l := range loops {
					have = append(have, fmt.Sprintf("%q #%d", l.key, l.ordinal))
				}
				// not fatal: the rest of the function is still verified (without this loop contract),
				// so that a refactoring that merges or splits loops is reported with what it breaks
				loopSpecMissing = append(loopSpecMissing, fmt.Sprintf("loop %q #%d: the function has no such loop (its loops: %s)", ls.Key, ls.Ordinal, strings.Join(have, ", ")))
				loopSpecNames = append(loopSpecNames, [2]string{fmt.Sprintf("%s#%d", ls.Key, ls.Ordinal), "missing"})
			} else {
				loopSpecNames = append(loopSpecNames, [2]string{fmt.Sprintf("%s#%d", ls.Key, ls.Ordinal), "ok"})
			}
		}
	}
	c := fv.ctx
	fv.declareGhostLocals()
	st := &State{cells: map[cellKey]Val{}, heaps: map[string]*Term{}, globals: map[string]*Term{}, pcSet: map[string]bool{}}
	st.nextRef = c.Fresh("nr", SInt)
	st.assume(IGe(st.nextRef, IntLit(1)))
	if st.nextRef.Sym != nil {
		st.nextRef.Sym.Lower = IntLit(1)
	}
	fv.frameSeq = 1
	f := &Frame{id: 1, fn: fn, regs: map[ssa.Value]Val{}}
	fv.entryVars = map[string]SVal{}
	for _, p := range fn.Params {
		v := fv.freshVal(st, "p_"+p.Name(), p.Type())
		f.regs[p] = v
		fv.entryVars[p.Name()] = SVal{T: v, Typ: p.Type()}
	}
	// free variables of a closure verified on its own: arbitrary heap cells
	for _, fvv := range fn.FreeVars {
		et := fvv.Type().(*types.Pointer).Elem()
		r := fv.freshVal(st, "fv_"+fvv.Name(), fvv.Type())
		st.assume(Not(Eq(r, IntLit(0))))
		l := &Loc{Kind: rootHeap, Ref: r, Typ: et, ElTyp: et}
		f.bindings = append(f.bindings, l)
		if cv, ok := fv.load(st, l).(*Term); ok {
			fv.entryVars[fvv.Name()] = SVal{T: cv, Typ: et}
		}
	}
	f.block = fn.Blocks[0]
	st.frames = []*Frame{f}
	// entry snapshot for old(): shares the initial symbolic heaps lazily
	old := &State{cells: map[cellKey]Val{}, heaps: map[string]*Term{}, globals: map[string]*Term{}, pcSet: map[string]bool{}, nextRef: st.nextRef}
	old.frames = st.frames
	st.old = old
	env := fv.newEnv(st, old)
	for k, v := range fv.entryVars {
		env.vars[k] = v
	}
	for _, ax := range e.axioms {
		// axioms are facts about one package's data and spec functions
		if e.pkgOfBlock(ax) != fn.Pkg.Pkg {
			continue
		}
		aenv := fv.newEnv(st, old)
		aenv.pkg = e.pkgOfBlock(ax)
		st.assume(fv.evalBool(aenv, ax.Body))
	}
	for _, cl := range blk.ClausesOf("requires") {
		st.assume(fv.evalBool(env, cl.Expr))
	}
	// heaps touched by requires are part of the entry snapshot
	for k, v := range st.heaps {
		if _, ok := old.heaps[k]; !ok {
			old.heaps[k] = v
		}
	}
	for k, v := range st.globals {
		if _, ok := old.globals[k]; !ok {
			old.globals[k] = v
		}
	}
	// vacuity: the precondition must be satisfiable
	fv.addCover(st, "requires", "precondition is satisfiable")
	fv.explore(st)
	// a hook that never fired was written for a call the function does not make (or not by that
	// name): it would be silently without effect
	if aspect == "" {
		for i, ln := range loopSpecNames {
			hst := &State{cells: map[cellKey]Val{}, heaps: map[string]*Term{}, globals: map[string]*Term{}, pcSet: map[string]bool{}}
			goal := True
			text := "the loop contract names a loop of the function"
			if ln[1] == "missing" {
				goal = False
				_ = i
				for _, m := range loopSpecMissing {
					if strings.Contains(m, fmt.Sprintf("loop %q", strings.SplitN(ln[0], "#", 2)[0])) {
						text = m
					}
				}
			}
			fv.oblige(hst, "loopspec", ln[0], token.NoPos, goal, text)
		}
		for _, kind := range []string{"aftercall", "assumeafter"} {
			for _, cl := range blk.ClausesOf(kind) {
				// an obligation of its own (registered on every run), so that the function's other
				// obligations are still generated and a change that removes the call is reported
				// with its semantic consequences, not only as a contract that no longer fits
				text := fmt.Sprintf("%s %s: a call of that name is made on some explored path", kind, cl.Target)
				hst := &State{cells: map[cellKey]Val{}, heaps: map[string]*Term{}, globals: map[string]*Term{}, pcSet: map[string]bool{}}
				if fv.hookFired[cl] {
					fv.oblige(hst, "hook", kind+" "+cl.Target, token.NoPos, True, text)
				} else {
					fv.oblige(hst, "hook", kind+" "+cl.Target, token.NoPos, False, text)
				}
			}
		}
	}
	fv.finalizeNames()
	return fv, nil
}

func (fv *FuncVer) addCover(st *State, anchor, text string) {
	if fv.aspect != "" {
		return
	}
	key := "cover:" + anchor
	ob, ok := fv.obls[key]
	if !ok {
		ob = &Obligation{Kind: "cover", Anchor: anchor, Func: fv.shortName(), Cover: true, Text: text}
		fv.obls[key] = ob
		fv.oblOrder = append(fv.oblOrder, key)
	}
	ob.Queries = append(ob.Queries, &Query{Assumptions: append([]*Term(nil), st.pc...), Goal: False, Trace: append([]string(nil), st.trace...)})
}

// checkEnsures: at a return of the function under contract.
func (fv *FuncVer) checkEnsures(st *State, res []Val) {
	env := fv.newEnv(st, st.old)
	for k, v := range fv.entryVars {
		env.vars[k] = v
	}
	rs := fv.fn.Signature.Results()
	for i := 0; i < rs.Len() && i < len(res); i++ {
		t, ok := res[i].(*Term)
		if !ok {
			t = fv.safeTerm(res[i])
		}
		sv := SVal{T: t, Typ: rs.At(i).Type()}
		if n := rs.At(i).Name(); n != "" && n != "_" {
			env.vars[n] = sv
		}
		env.vars[fmt.Sprintf("result%d", i)] = sv
		if i == 0 {
			env.vars["result"] = sv
		}
	}
	if rn, ok := fv.block.Flags["returns"]; ok {
		for i, n := range strings.Fields(strings.ReplaceAll(rn, ",", " ")) {
			if i < len(res) && n != "_" {
				env.vars[n] = env.vars[fmt.Sprintf("result%d", i)]
			}
		}
	}
	for i, cl := range fv.block.ClausesOf("ensures") {
		label := cl.Name
		if label == "" {
			label = fmt.Sprintf("#%d", i+1)
		}
		if strings.HasPrefix(label, "assumed:") {
			continue // assumed at call sites, not proved here (listed in the evidence)
		}
		if !fv.clauseActive(label) || (fv.aspect != "" && !strings.Contains(label, "@")) {
			continue
		}
		g := fv.evalBool(env, cl.Expr)
		fv.oblige(st, "ensures["+label+"]", "", token.NoPos, g, "postcondition: "+cl.Text)
	}
	fv.checkFrame(st, env)
	// reachability of a normal return (vacuity guard)
	fv.addCover(st, "return", "some normal return is reachable")
	// and each return statement on its own (a contradiction among assumptions made on the way to
	// one of them would make its postconditions vacuous)
	if a := fv.anchorAt(fv.curPos(st), ""); a != "" {
		fv.addCover(st, "return@"+a, "this return statement is reachable")
	}
}


// checkFrame: a function with an `assigns` clause must leave every heap object that existed at
// entry, every ghost and every map outside that clause exactly as it was (frame obligations).
func (fv *FuncVer) checkFrame(st *State, env *SpecEnv) {
	as, ok := fv.block.Flags["assigns"]
	if !ok || fv.block.Flags["frame"] == "assumed" {
		return
	}
	allowed := map[string]bool{}
	var pts []pointee
	for _, k := range fv.parseAssigns(as, env) {
		if k == "*" {
			return
		}
		if strings.HasPrefix(k, "pointee|") {
			pts = append(pts, fv.pointees[k])
			continue
		}
		allowed[k] = true
	}
	nr0 := st.old.nextRef
	var keys []string
	for k := range st.heaps {
		keys = append(keys, k)
	}
	sortStrings(keys)
	for _, k := range keys {
		cur := st.heaps[k]
		old, ok := st.old.heaps[k]
		if !ok || allowed[k] || sameTerm(cur, old) {
			continue
		}
		r := fv.ctx.Fresh("sk_ref", SInt)
		guard := And(ILe(IntLit(0), r), ILt(r, nr0))
		for _, p := range pts {
			if p.key == k {
				guard = And(guard, Not(Eq(r, p.ref)))
			}
		}
		goal := Implies(guard, Eq(Select(cur, r), Select(old, r)))
		fv.oblige(st, "frame["+k+"]", "", token.NoPos, goal, "objects of "+k+" that existed at entry are unchanged (assigns "+as+")")
	}
	var gks []string
	for k := range st.globals {
		if strings.HasPrefix(k, "ghost:") {
			gks = append(gks, k)
		}
	}
	sortStrings(gks)
	for _, k := range gks {
		cur := st.globals[k]
		old, ok := st.old.globals[k]
		if !ok || allowed[k] || sameTerm(cur, old) {
			continue
		}
		fv.oblige(st, "frame["+k+"]", "", token.NoPos, Eq(cur, old), k+" is unchanged (assigns "+as+")")
	}
}

func sortStrings(s []string) {
	for i := 1; i < len(s); i++ {
		for j := i; j > 0 && s[j] < s[j-1]; j-- {
			s[j], s[j-1] = s[j-1], s[j]
		}
	}
}
