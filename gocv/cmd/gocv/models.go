package main

// Built-ins and hand-written models of standard-library functions (assumption
// A1 in DESIGN.md: each model is an assumed contract on a dependency).

import (
	"fmt"
	"go/token"
	"go/types"
	"math/big"
	"strings"

	"golang.org/x/tools/go/ssa"
)

func (fv *FuncVer) elemArr(st *State, sl *Term, elem types.Type) *Term {
	key, hs := fv.elemsKey(elem)
	return Select(fv.heap(st, key, hs), Field(sl, 0))
}

func (fv *FuncVer) setElemArr(st *State, base *Term, elem types.Type, arr *Term) {
	key, hs := fv.elemsKey(elem)
	st.heaps[key] = fv.ctx.Name("h", Store(fv.heap(st, key, hs), base, arr))
}

func (fv *FuncVer) builtin(st *State, ins ssa.Instruction, b *ssa.Builtin, args []Val, cc *ssa.CallCommon) Val {
	c := fv.ctx
	argT := func(i int) types.Type { return cc.Args[i].Type() }
	switch b.Name() {
	case "len", "cap":
		x := fv.term(args[0])
		switch u := types.Unalias(argT(0)).Underlying().(type) {
		case *types.Slice:
			if b.Name() == "cap" {
				return Field(x, 3)
			}
			return Field(x, 2)
		case *types.Basic:
			return c.StrLen(x)
		case *types.Map:
			fv.nilMapFacts(st, u)
			return fv.mapLen(st, x, u)
		case *types.Array:
			return c.WLit(u.Len())
		case *types.Pointer:
			return c.WLit(u.Elem().Underlying().(*types.Array).Len())
		case *types.Chan:
			v := c.Fresh("chanlen", c.W)
			st.assume(c.WLe(c.WLit(0), v))
			return v
		}
	case "append":
		return fv.appendModel(st, ins, args, cc)
	case "copy":
		return fv.copyModel(st, args, cc)
	case "delete":
		mt := argT(0).Underlying().(*types.Map)
		fv.mapDelete(st, fv.term(args[0]), mt, fv.term(args[1]))
		return nil
	case "min", "max":
		t := argT(0)
		r := fv.term(args[0])
		for i := 1; i < len(args); i++ {
			y := fv.term(args[i])
			if !isIntType(t) {
				return c.Fresh("minmax", r.Sort)
			}
			if b.Name() == "min" {
				r = Ite(c.Cmp(token.LEQ, r, y, t), r, y)
			} else {
				r = Ite(c.Cmp(token.GEQ, r, y, t), r, y)
			}
		}
		return r
	case "clear":
		switch u := types.Unalias(argT(0)).Underlying().(type) {
		case *types.Map:
			m := fv.term(args[0])
			fv.nilMapFacts(st, u)
			hk, _, lk, hs, _, ls := fv.mapHeaps(st, u)
			H, L := fv.heap(st, hk, hs), fv.heap(st, lk, ls)
			st.heaps[hk] = Ite(Eq(m, IntLit(0)), H, Store(H, m, ConstArray(hs.Elem, False)))
			st.heaps[lk] = Store(L, m, c.WLit(0))
			return nil
		case *types.Slice:
			sl := fv.term(args[0])
			old := fv.elemArr(st, sl, u.Elem())
			na := c.Fresh("cleared", old.Sort)
			j := BoundVar("j", c.W)
			lo, hi := Field(sl, 1), c.WAdd(Field(sl, 1), Field(sl, 2))
			in := And(c.WLe(lo, j), c.WLt(j, hi))
			st.assume(Forall([]*Term{j}, Eq(Select(na, j), Ite(in, c.Zero(u.Elem()), Select(old, j))), Select(na, j)))
			fv.setElemArr(st, Field(sl, 0), u.Elem(), na)
			return nil
		}
	case "close":
		ch := fv.safeTerm(args[0])
		closed := fv.chanClosed(st)
		if fv.nopanic {
			fv.oblige(st, "nopanic", "close of a closed channel", ins.Pos(), Not(Select(closed, ch)), "the channel is not closed twice")
		}
		st.globals["chan:closed"] = Store(closed, ch, True)
		fv.recordEventT(st, "chan.close", []*Term{ch}, nil, ins)
		return nil
	case "print", "println":
		return nil
	case "recover":
		// recover() stops a panic only when the deferred function itself calls it: record where
		// it was called from (frame 2 = a function deferred directly by the function under contract)
		name := "recover.indirect"
		if len(st.frames) == 2 {
			name = "recover.direct"
		}
		fv.recordEventT(st, name, nil, nil, ins)
		return c.NilIface()
	case "ssa:wrapnilchk":
		return args[0]
	case "ssa:deferstack":
		return IntLit(0)
	case "panic":
		panic(pathEnd{})
	}
	panic(unsupported("builtin " + b.Name()))
}

// appendModel: exact model of append (in place when capacity suffices, otherwise a fresh
// backing array that agrees with the old one at the same offsets).
func (fv *FuncVer) appendModel(st *State, ins ssa.Instruction, args []Val, cc *ssa.CallCommon) Val {
	c := fv.ctx
	st0 := cc.Args[0].Type()
	slT, ok := types.Unalias(st0).Underlying().(*types.Slice)
	if !ok {
		panic(unsupported("append to non-slice"))
	}
	et := slT.Elem()
	s := fv.term(args[0])
	base, off, ln, cp := Field(s, 0), Field(s, 1), Field(s, 2), Field(s, 3)
	// the appended elements
	var n *Term
	var elemAt func(i *Term) *Term
	var constN int64 = -1
	t := fv.term(args[1])
	if bt := basicOf(cc.Args[1].Type()); bt != nil && bt.Info()&types.IsString != 0 {
		n = c.StrLen(t)
		bytes := c.Func("str.tobytes_", c.ArraySort(c.W, c.SortOf(et)), t)
		elemAt = func(i *Term) *Term { return Select(bytes, i) }
	} else {
		n = Field(t, 2)
		tarr := fv.elemArr(st, t, et)
		toff := Field(t, 1)
		elemAt = func(i *Term) *Term { return Select(tarr, c.WAdd(toff, i)) }
	}
	if rn := resolve(n); rn.IsLit {
		constN = rn.Int.Int64()
	}
	if constN == 0 {
		return s
	}
	newLen := c.WAdd(ln, n)
	fits := c.Name("fits", c.WLe(newLen, cp))
	nref := fv.newRef(st)
	rbase := Ite(fits, base, nref)
	ncap := c.Fresh("newcap", c.W)
	st.assume(c.WLe(newLen, ncap))
	st.assume(fv.sliceBound(off, ncap))
	rcap := Ite(fits, cp, ncap)
	oldArr := fv.elemArr(st, s, et)
	var newArr *Term
	if constN >= 0 && constN <= 8 {
		newArr = oldArr
		for i := int64(0); i < constN; i++ {
			newArr = Store(newArr, c.WAdd(c.WAdd(off, ln), c.WLit(i)), elemAt(c.WLit(i)))
		}
	} else {
		newArr = c.Fresh("appended", oldArr.Sort)
		j := BoundVar("j", c.W)
		start := c.WAdd(off, ln)
		in := And(c.WLe(start, j), c.WLt(j, c.WAdd(start, n)))
		st.assume(Forall([]*Term{j}, Eq(Select(newArr, j), Ite(in, elemAt(c.WSub(j, start)), Select(oldArr, j))), Select(newArr, j)))
	}
	// a nil slice has base 0: never write at reference 0 (fits is false unless n == 0)
	st.assume(Implies(Eq(base, IntLit(0)), Not(fits)))
	fv.setElemArr(st, rbase, et, newArr)
	return c.Name("app", MkDT(c.SSlice, rbase, off, newLen, rcap))
}

func (fv *FuncVer) copyModel(st *State, args []Val, cc *ssa.CallCommon) Val {
	c := fv.ctx
	dT := types.Unalias(cc.Args[0].Type()).Underlying().(*types.Slice)
	et := dT.Elem()
	d := fv.term(args[0])
	s := fv.term(args[1])
	var sn *Term
	var srcAt func(i *Term) *Term
	if bt := basicOf(cc.Args[1].Type()); bt != nil && bt.Info()&types.IsString != 0 {
		sn = c.StrLen(s)
		bytes := c.Func("str.tobytes_", c.ArraySort(c.W, c.SortOf(et)), s)
		srcAt = func(i *Term) *Term { return Select(bytes, i) }
	} else {
		sn = Field(s, 2)
		sarr := fv.elemArr(st, s, et)
		soff := Field(s, 1)
		srcAt = func(i *Term) *Term { return Select(sarr, c.WAdd(soff, i)) }
	}
	dn := Field(d, 2)
	n := c.Name("copyn", Ite(c.WLe(dn, sn), dn, sn))
	old := fv.elemArr(st, d, et)
	doff := Field(d, 1)
	rn := resolve(n)
	var na *Term
	if rn.IsLit && rn.Int.Int64() <= 40 {
		na = old
		for i := int64(0); i < rn.Int.Int64(); i++ {
			na = Store(na, c.WAdd(doff, c.WLit(i)), srcAt(c.WLit(i)))
		}
	} else {
		na = c.Fresh("copied", old.Sort)
		j := BoundVar("j", c.W)
		in := And(c.WLe(doff, j), c.WLt(j, c.WAdd(doff, n)))
		st.assume(Forall([]*Term{j}, Eq(Select(na, j), Ite(in, srcAt(c.WSub(j, doff)), Select(old, j))), Select(na, j)))
	}
	st.assume(Implies(Eq(Field(d, 0), IntLit(0)), Eq(n, c.WLit(0))))
	fv.setElemArr(st, Field(d, 0), et, na)
	return n
}

// ---------------------------------------------------------------------------
// standard library models

type modelFn func(fv *FuncVer, st *State, ins ssa.Instruction, fn *ssa.Function, args []Val, cc *ssa.CallCommon) Val

var models map[string]modelFn

func init() {
	models = map[string]modelFn{
		"errors.New":  freshError,
		"fmt.Errorf":  freshError,
		"fmt.Sprintf": func(fv *FuncVer, st *State, ins ssa.Instruction, fn *ssa.Function, args []Val, cc *ssa.CallCommon) Val { return fv.freshVal(st, "sprintf", types.Typ[types.String]) },
		"fmt.Sprint":  func(fv *FuncVer, st *State, ins ssa.Instruction, fn *ssa.Function, args []Val, cc *ssa.CallCommon) Val { return fv.freshVal(st, "sprint", types.Typ[types.String]) },
		"(*sync.Mutex).Lock":      lockModel,
		"(*sync.Mutex).Unlock":    lockModel,
		"(*sync.RWMutex).Lock":    lockModel,
		"(*sync.RWMutex).Unlock":  lockModel,
		"(*sync.RWMutex).RLock":   lockModel,
		"(*sync.RWMutex).RUnlock": lockModel,
		"(encoding/binary.bigEndian).Uint64":       beUint(8, true),
		"(encoding/binary.bigEndian).Uint32":       beUint(4, true),
		"(encoding/binary.littleEndian).Uint64":    beUint(8, false),
		"(encoding/binary.bigEndian).PutUint64":    bePut(8, true),
		"(encoding/binary.bigEndian).PutUint32":    bePut(4, true),
		"(encoding/binary.littleEndian).PutUint64": bePut(8, false),
		"(encoding/binary.bigEndian).AppendUint64": beAppend(8),
		"(encoding/binary.bigEndian).AppendUint32": beAppend(4),
		"slices.Clone":   slicesClone,
		"slices.Reverse": slicesReverse,
		"sort.Slice":     sortSlice,
		"sort.Ints":      sortInts,
		"math/bits.Len64": bitsLen64,
		"strings.Join":    stringsJoin,
		"errors.Is":       errorsIs,
		"strings.Fields":  stringsFields,
	}
}

func (e *Engine) hasModel(fn *ssa.Function) bool {
	name := fn.String()
	if o := fn.Origin(); o != nil {
		name = o.String()
	}
	_, ok := models[name]
	return ok
}

// modelMods: heap keys a modelled function may write (for loop havoc).
func (e *Engine) modelMods(fv *FuncVer, fn *ssa.Function, cc *ssa.CallCommon) []string {
	name := fn.String()
	if o := fn.Origin(); o != nil {
		name = o.String()
	}
	byteKey, _ := fv.elemsKey(types.Typ[types.Uint8])
	switch {
	case strings.Contains(name, "encoding/binary") && (strings.Contains(name, "Put") || strings.Contains(name, "Append")):
		return []string{byteKey}
	case name == "slices.Clone" || name == "slices.Reverse":
		if sl, ok := types.Unalias(cc.Args[0].Type()).Underlying().(*types.Slice); ok {
			k, _ := fv.elemsKey(sl.Elem())
			return []string{k}
		}
	case name == "sort.Ints":
		if sl, ok := types.Unalias(cc.Args[0].Type()).Underlying().(*types.Slice); ok {
			k, _ := fv.elemsKey(sl.Elem())
			return []string{k}
		}
	case name == "sort.Slice":
		if mi, ok := cc.Args[0].(*ssa.MakeInterface); ok {
			if sl, ok := types.Unalias(mi.X.Type()).Underlying().(*types.Slice); ok {
				k, _ := fv.elemsKey(sl.Elem())
				return []string{k}
			}
		}
		var out []string
		for k := range fv.heapSorts {
			if strings.HasPrefix(k, "E:") {
				out = append(out, k)
			}
		}
		return out
	}
	return nil
}

func (fv *FuncVer) model(st *State, ins ssa.Instruction, fn *ssa.Function, args []Val, cc *ssa.CallCommon) (Val, bool) {
	name := fn.String()
	if o := fn.Origin(); o != nil {
		name = o.String()
	}
	m, ok := models[name]
	if !ok {
		return nil, false
	}
	return m(fv, st, ins, fn, args, cc), true
}

func freshError(fv *FuncVer, st *State, ins ssa.Instruction, fn *ssa.Function, args []Val, cc *ssa.CallCommon) Val {
	e := fv.ctx.Fresh("err", fv.ctx.SIface)
	st.assume(Not(Eq(e, fv.ctx.NilIface())))
	return e
}

func lockModel(fv *FuncVer, st *State, ins ssa.Instruction, fn *ssa.Function, args []Val, cc *ssa.CallCommon) Val {
	name := fn.Name()
	fv.recordEvent(st, name, nil, nil, ins)
	if name == "Lock" || name == "RLock" {
		fv.onLock(st, ins, args)
	} else {
		fv.onUnlock(st, ins, args)
	}
	return nil
}

// lock hooks (lock invariants are added by later tiers)
func (fv *FuncVer) onLock(st *State, ins ssa.Instruction, args []Val)   {}
func (fv *FuncVer) onUnlock(st *State, ins ssa.Instruction, args []Val) {}

func byteSort(fv *FuncVer) *Sort { return fv.ctx.SortOf(types.Typ[types.Uint8]) }

func beUint(n int, big_ bool) modelFn {
	return func(fv *FuncVer, st *State, ins ssa.Instruction, fn *ssa.Function, args []Val, cc *ssa.CallCommon) Val {
		c := fv.ctx
		sl := fv.term(args[len(args)-1])
		ok := c.WLe(c.WLit(int64(n)), Field(sl, 2))
		fv.boundsCheck(st, ok, ins.Pos(), "binary.Uint")
		arr := fv.elemArr(st, sl, types.Typ[types.Uint8])
		off := Field(sl, 1)
		var r *Term
		rt := fn.Signature.Results().At(0).Type()
		for i := 0; i < n; i++ {
			b := Select(arr, c.WAdd(off, c.WLit(int64(i))))
			shift := 8 * (n - 1 - i)
			if !big_ {
				shift = 8 * i
			}
			var part *Term
			if c.BV {
				part = c.bvop("bvshl", c.zext(b, 8*n), c.bvLit(big.NewInt(int64(shift)), 8*n))
				if r == nil {
					r = part
				} else {
					r = c.bvop("bvor", r, part)
				}
			} else {
				st.assume(c.InRange(b, types.Typ[types.Uint8]))
				part = IMul(b, BigLit(pow2(shift), SInt))
				if r == nil {
					r = part
				} else {
					r = IAdd(r, part)
				}
			}
		}
		_ = rt
		return c.Name("be", r)
	}
}

func bytesOfInt(fv *FuncVer, v *Term, n int, big_ bool) []*Term {
	c := fv.ctx
	out := make([]*Term, n)
	for i := 0; i < n; i++ {
		shift := 8 * (n - 1 - i)
		if !big_ {
			shift = 8 * i
		}
		if c.BV {
			out[i] = c.extract(v, shift+7, shift)
		} else {
			out[i] = mk("mod", SInt, mk("div", SInt, v, BigLit(pow2(shift), SInt)), IntLit(256))
		}
	}
	return out
}

func bePut(n int, big_ bool) modelFn {
	return func(fv *FuncVer, st *State, ins ssa.Instruction, fn *ssa.Function, args []Val, cc *ssa.CallCommon) Val {
		c := fv.ctx
		sl := fv.term(args[len(args)-2])
		v := fv.term(args[len(args)-1])
		ok := c.WLe(c.WLit(int64(n)), Field(sl, 2))
		fv.boundsCheck(st, ok, ins.Pos(), "binary.PutUint")
		arr := fv.elemArr(st, sl, types.Typ[types.Uint8])
		off := Field(sl, 1)
		for i, b := range bytesOfInt(fv, v, n, big_) {
			arr = Store(arr, c.WAdd(off, c.WLit(int64(i))), b)
		}
		fv.setElemArr(st, Field(sl, 0), types.Typ[types.Uint8], arr)
		return nil
	}
}

func beAppend(n int) modelFn {
	return func(fv *FuncVer, st *State, ins ssa.Instruction, fn *ssa.Function, args []Val, cc *ssa.CallCommon) Val {
		c := fv.ctx
		s := fv.term(args[len(args)-2])
		v := fv.term(args[len(args)-1])
		et := types.Typ[types.Uint8]
		base, off, ln, cp := Field(s, 0), Field(s, 1), Field(s, 2), Field(s, 3)
		newLen := c.WAdd(ln, c.WLit(int64(n)))
		fits := c.Name("fits", c.WLe(newLen, cp))
		nref := fv.newRef(st)
		rbase := Ite(fits, base, nref)
		ncap := c.Fresh("newcap", c.W)
		st.assume(c.WLe(newLen, ncap))
		st.assume(fv.sliceBound(off, ncap))
		arr := fv.elemArr(st, s, et)
		for i, b := range bytesOfInt(fv, v, n, true) {
			arr = Store(arr, c.WAdd(c.WAdd(off, ln), c.WLit(int64(i))), b)
		}
		st.assume(Implies(Eq(base, IntLit(0)), Not(fits)))
		fv.setElemArr(st, rbase, et, arr)
		return c.Name("app", MkDT(c.SSlice, rbase, off, newLen, Ite(fits, cp, ncap)))
	}
}

func slicesClone(fv *FuncVer, st *State, ins ssa.Instruction, fn *ssa.Function, args []Val, cc *ssa.CallCommon) Val {
	c := fv.ctx
	sl, ok := types.Unalias(cc.Args[0].Type()).Underlying().(*types.Slice)
	if !ok {
		panic(unsupported("slices.Clone of non-slice"))
	}
	s := fv.term(args[0])
	arr := fv.elemArr(st, s, sl.Elem())
	nref := fv.newRef(st)
	fv.setElemArr(st, nref, sl.Elem(), arr)
	// Clone(nil) == nil
	isNil := Eq(Field(s, 0), IntLit(0))
	return c.Name("clone", Ite(isNil, c.NilSlice(), MkDT(c.SSlice, nref, Field(s, 1), Field(s, 2), Field(s, 2))))
}

func slicesReverse(fv *FuncVer, st *State, ins ssa.Instruction, fn *ssa.Function, args []Val, cc *ssa.CallCommon) Val {
	c := fv.ctx
	sl, ok := types.Unalias(cc.Args[0].Type()).Underlying().(*types.Slice)
	if !ok {
		panic(unsupported("slices.Reverse of non-slice"))
	}
	s := fv.term(args[0])
	old := fv.elemArr(st, s, sl.Elem())
	na := c.Fresh("reversed", old.Sort)
	j := BoundVar("j", c.W)
	lo := Field(s, 1)
	hi := c.WAdd(lo, Field(s, 2))
	in := And(c.WLe(lo, j), c.WLt(j, hi))
	mirror := c.WSub(c.WSub(c.WAdd(lo, hi), j), c.WLit(1))
	st.assume(Forall([]*Term{j}, Eq(Select(na, j), Ite(in, Select(old, mirror), Select(old, j))), Select(na, j)))
	st.assume(Implies(Eq(Field(s, 0), IntLit(0)), Eq(na, old)))
	fv.setElemArr(st, Field(s, 0), sl.Elem(), na)
	return nil
}

// sortInts: sort.Ints(x) leaves a permutation of x in ascending order.
func sortInts(fv *FuncVer, st *State, ins ssa.Instruction, fn *ssa.Function, args []Val, cc *ssa.CallCommon) Val {
	c := fv.ctx
	slt, ok := types.Unalias(cc.Args[0].Type()).Underlying().(*types.Slice)
	sl, ok2 := args[0].(*Term)
	if !ok || !ok2 {
		panic(unsupported("sort.Ints on a non-slice value"))
	}
	newRow, off, ln := fv.permuteSlice(st, sl, slt.Elem())
	if newRow == nil {
		return nil
	}
	a := BoundVar("a_q", c.W)
	b := BoundVar("b_q", c.W)
	at := func(k *Term) *Term { return Select(newRow, c.WAdd(off, k)) }
	st.assume(Forall([]*Term{a, b}, Implies(And(c.WLe(c.WLit(0), a), c.WLe(a, b), c.WLt(b, ln)), c.Cmp(token.LEQ, at(a), at(b), slt.Elem())), at(a), at(b)))
	return nil
}

// permuteSlice replaces the contents of sl by an unspecified permutation of itself and returns
// the new row of the element store (nil when the slice is literally empty).
func (fv *FuncVer) permuteSlice(st *State, sl *Term, et types.Type) (*Term, *Term, *Term) {
	c := fv.ctx
	key, hs := fv.elemsKey(et)
	h := fv.heap(st, key, hs)
	base, off, ln := Field(sl, 0), Field(sl, 1), Field(sl, 2)
	if rl := resolve(ln); rl.IsLit && rl.Int.Sign() == 0 {
		return nil, nil, nil
	}
	oldRow := c.Name("sortold", Select(h, base))
	newRow := c.Fresh("sorted", oldRow.Sort)
	perm := c.Fresh("perm", c.ArraySort(c.W, c.W))
	inv := c.Fresh("perminv", c.ArraySort(c.W, c.W))
	j := BoundVar("j_q", c.W)
	i := BoundVar("i_q", c.W)
	out := Or(c.WLt(j, off), c.WLe(c.WAdd(off, ln), j))
	in := And(c.WLe(c.WLit(0), i), c.WLt(i, ln))
	at := func(arr, k *Term) *Term { return Select(arr, c.WAdd(off, k)) }
	pi := Select(perm, i)
	st.assume(Forall([]*Term{j}, Implies(out, Eq(Select(newRow, j), Select(oldRow, j))), Select(newRow, j)))
	st.assume(Forall([]*Term{i}, Implies(in, And(c.WLe(c.WLit(0), pi), c.WLt(pi, ln), Eq(Select(inv, pi), i), Eq(at(newRow, i), at(oldRow, pi)))), at(newRow, i)))
	ii := Select(inv, i)
	st.assume(Forall([]*Term{i}, Implies(in, And(c.WLe(c.WLit(0), ii), c.WLt(ii, ln), Eq(Select(perm, ii), i), Eq(at(newRow, ii), at(oldRow, i)))), at(oldRow, i)))
	// an empty slice (in particular one with base 0) gets back exactly its old row: by the first
	// axiom the new row equals the old one outside [off, off+len)
	st.heaps[key] = c.Name("h", Store(h, base, newRow))
	fv.note(st, "sort: unspecified permutation")
	return newRow, off, ln
}

func sortSlice(fv *FuncVer, st *State, ins ssa.Instruction, fn *ssa.Function, args []Val, cc *ssa.CallCommon) Val {
	// sort.Slice(x, less): afterwards the slice holds an unspecified permutation of its
	// former elements (no order is assumed, so nothing depends on what less computes);
	// less is assumed to have no side effects. Everything else is unchanged.
	if mi, ok := cc.Args[0].(*ssa.MakeInterface); ok {
		if slt, ok := types.Unalias(mi.X.Type()).Underlying().(*types.Slice); ok {
			if sl, ok := fv.val(st, mi.X).(*Term); ok {
				fv.permuteSlice(st, sl, slt.Elem())
				return nil
			}
		}
	}
	var keys []string
	for k := range st.heaps {
		if strings.HasPrefix(k, "E:") {
			keys = append(keys, k)
		}
	}
	fv.havocKeys(st, keys)
	fv.note(st, "sort.Slice: element stores havocked")
	return nil
}

func bitsLen64(fv *FuncVer, st *State, ins ssa.Instruction, fn *ssa.Function, args []Val, cc *ssa.CallCommon) Val {
	c := fv.ctx
	x := fv.term(args[0])
	if !c.BV {
		r := c.Func("bits.Len64_", SInt, x)
		st.assume(And(ILe(IntLit(0), r), ILe(r, IntLit(64))))
		// 2^(r-1) <= x < 2^r is not linear; expose the two boundary facts most proofs need
		st.assume(Eq(Eq(r, IntLit(0)), Eq(x, IntLit(0))))
		return r
	}
	// ite chain from the top bit down
	r := c.WLit(0)
	for i := 0; i < 64; i++ {
		bit := Eq(c.extract(x, i, i), c.bvLit(big.NewInt(1), 1))
		r = Ite(bit, c.WLit(int64(i+1)), r)
	}
	_ = fmt.Sprint
	return c.Name("bitlen", r)
}


// strings.Join: a function of the elements and the separator only. For a
// literal number of elements the result is spec_strJoin<n>(sep, e0, ..) so
// that contracts can talk about it (spec func strJoin<n>).
func stringsJoin(fv *FuncVer, st *State, ins ssa.Instruction, fn *ssa.Function, args []Val, cc *ssa.CallCommon) Val {
	c := fv.ctx
	sl := fv.term(args[0])
	sep := fv.term(args[1])
	arr := fv.elemArr(st, sl, types.Typ[types.String])
	if ln := resolve(Field(sl, 2)); ln.IsLit && ln.Int.Int64() <= 32 {
		fargs := []*Term{sep}
		for j := int64(0); j < ln.Int.Int64(); j++ {
			fargs = append(fargs, Select(arr, c.WAdd(Field(sl, 1), c.WLit(j))))
		}
		return c.Func(fmt.Sprintf("spec_strJoin%d", ln.Int.Int64()), c.SStr, fargs...)
	}
	return c.Func("str.join_", c.SStr, arr, Field(sl, 1), Field(sl, 2), sep)
}

// strings.Fields: a fresh slice whose length and elements are functions of the
// string (spec funcs fieldsLen / fieldsAt).
func stringsFields(fv *FuncVer, st *State, ins ssa.Instruction, fn *ssa.Function, args []Val, cc *ssa.CallCommon) Val {
	c := fv.ctx
	s := fv.term(args[0])
	n := c.Func("spec_fieldsLen", c.W, s)
	st.assume(c.WLe(c.WLit(0), n))
	r := fv.newRef(st)
	key, hs := fv.elemsKey(types.Typ[types.String])
	content := c.Fresh("fields", hs.Elem)
	j := BoundVar("j", c.W)
	st.assume(Forall([]*Term{j}, Eq(Select(content, j), c.Func("spec_fieldsAt", c.SStr, s, j)), Select(content, j)))
	st.heaps[key] = Store(fv.heap(st, key, hs), r, content)
	st.assume(fv.sliceBound(c.WLit(0), n))
	return MkDT(c.SSlice, r, c.WLit(0), n, n)
}


// errors.Is(err, target): an arbitrary verdict, except that a nil error matches nothing
// (targets are sentinel errors, never nil: modelling assumption).
func errorsIs(fv *FuncVer, st *State, ins ssa.Instruction, fn *ssa.Function, args []Val, cc *ssa.CallCommon) Val {
	c := fv.ctx
	e := fv.term(args[0])
	r := c.Fresh("errors_is", SBool)
	st.assume(Implies(r, Not(Eq(e, c.NilIface()))))
	return r
}
