package main

// Engine-side instantiation of triggered quantified assumptions. The solvers
// mix E-matching with bit-vector and array reasoning poorly; a query in which
// the needed instances are already present as ground facts (and the quantifiers
// are dropped) is usually decided at once. Dropping assumptions is sound for
// `unsat`; a `sat` answer of the ground variant is never trusted.

import (
	"math/big"
	"sort"
	"strings"
)

type inst struct {
	q    *Term
	bind map[*Term]*Term
}

func groundSubterms(ts []*Term) []*Term {
	seen := map[*Term]bool{}
	seenStr := map[string]bool{}
	var out []*Term
	bound := map[*Term]bool{}
	openMemo := map[*Term]bool{}
	var isOpen func(t *Term) bool
	isOpen = func(t *Term) bool {
		if t == nil {
			return false
		}
		if bound[t] {
			return true
		}
		if v, ok := openMemo[t]; ok {
			return v
		}
		r := false
		if t.Q != nil {
			r = isOpen(t.Q.Body)
		}
		for _, a := range t.Args {
			if r {
				break
			}
			r = isOpen(a)
		}
		openMemo[t] = r
		return r
	}
	var visit func(t *Term, underQ bool)
	seenOpen := map[*Term]bool{}
	var visitOpen func(t *Term)
	visitOpen = func(t *Term) {
		if t == nil || seenOpen[t] {
			return
		}
		if t.Q != nil {
			for _, v := range t.Q.Vars {
				bound[v] = true
			}
			openMemo = map[*Term]bool{}
			visitOpen(t.Q.Body)
			return
		}
		if !isOpen(t) {
			visit(t, true)
			return
		}
		seenOpen[t] = true
		for _, a := range t.Args {
			visitOpen(a)
		}
	}
	visit = func(t *Term, underQ bool) {
		if t == nil || seen[t] {
			return
		}
		seen[t] = true
		if t.Q != nil {
			// under a binder only the closed subterms are ground terms of the query
			for _, v := range t.Q.Vars {
				bound[v] = true
			}
			visitOpen(t.Q.Body)
			return
		}
		out = append(out, t)
		for _, a := range t.Args {
			visit(a, underQ)
		}
		// what the term reads when the store in front of it is at another index:
		// select(store(a, i, v), j) ~> select(a, j). The solvers see these only after
		// rewriting; as extra ground terms they let triggers match across updates.
		if t.Op == "select" && len(out) < 4000 {
			for _, a := range arrayAlts(t.Args[0]) {
				nt := Select(a, t.Args[1])
				if k := nt.String(); !seenStr[k] {
					seenStr[k] = true
					visit(nt, underQ)
				}
			}
		}
		if t.Sym != nil && t.Sym.Def != nil {
			visit(t.Sym.Def, underQ)
		}
	}
	for _, t := range ts {
		visit(t, false)
	}
	return out
}

// arrayAlts: arrays that agree with arr at every index but the one last written.
func arrayAlts(arr *Term) []*Term {
	r := resolve(arr)
	switch r.Op {
	case "store":
		return []*Term{r.Args[0]}
	case "select":
		// a row of a two-level heap: select(store(h, ref, row), ref2) is row or select(h, ref2)
		if h := resolve(r.Args[0]); h.Op == "store" {
			return []*Term{h.Args[2], Select(h.Args[0], r.Args[1])}
		}
	}
	return nil
}

func isBound(t *Term, vars []*Term) bool {
	for _, v := range vars {
		if v == t {
			return true
		}
	}
	return false
}

// match pattern p against ground term g.
func matchTerm(p, g *Term, vars []*Term, bind map[*Term]*Term) bool {
	if isBound(p, vars) {
		if p.Sort != g.Sort {
			return false
		}
		if b, ok := bind[p]; ok {
			return sameTerm(b, g)
		}
		bind[p] = g
		return true
	}
	rp := p
	rg := resolve(g)
	if rp.Sym != nil && rp.Sym.Def != nil && len(rp.Args) == 0 {
		rp = resolve(rp)
	}
	if rp.IsLit || rg.IsLit {
		return rp.IsLit && rg.IsLit && rp.Sort == rg.Sort && rp.String() == rg.String()
	}
	if rp.Op != rg.Op || len(rp.Args) != len(rg.Args) || rp.Sort != rg.Sort || rp.Q != nil || rg.Q != nil {
		return extGround && matchLinear(rp, g, vars, bind)
	}
	if len(rp.Args) == 0 {
		return rp.String() == rg.String()
	}
	// try the syntactic match on a copy so that a failed attempt leaves no bindings behind
	trial := map[*Term]*Term{}
	for k, v := range bind {
		trial[k] = v
	}
	ok := true
	for i := range rp.Args {
		if !matchTerm(rp.Args[i], rg.Args[i], vars, trial) {
			ok = false
			break
		}
	}
	if ok {
		for k, v := range trial {
			bind[k] = v
		}
		return true
	}
	return extGround && matchLinear(rp, g, vars, bind)
}

// matchLinear: a pattern `t + v` (an index expression: offset plus a bound variable) matches any
// integer term g by solving for the variable, v := g - t, once every other variable of t is
// bound. Matching stays syntactic everywhere else; this only removes the dependence on how an
// index happens to be written (off + (k + 1) against (off + k) + 1).
func matchLinear(p, g *Term, vars []*Term, bind map[*Term]*Term) bool {
	if p.Sort != SInt || g.Sort != SInt || p.Op != "+" || len(p.Args) != 2 {
		return false
	}
	for vi := 0; vi < 2; vi++ {
		v, other := p.Args[vi], p.Args[1-vi]
		if !isBound(v, vars) {
			continue
		}
		if _, done := bind[v]; done {
			continue
		}
		if !allVarsBound(other, vars, bind) {
			continue
		}
		o := substTerm(other, bind, map[*Term]*Term{})
		bind[v] = linNorm(ISub(g, o))
		return true
	}
	return false
}

func allVarsBound(t *Term, vars []*Term, bind map[*Term]*Term) bool {
	if isBound(t, vars) {
		_, ok := bind[t]
		return ok
	}
	if t.Q != nil {
		return false
	}
	for _, a := range t.Args {
		if !allVarsBound(a, vars, bind) {
			return false
		}
	}
	return true
}

// linNorm: an integer term as a sum of atoms with integer coefficients, atoms in a fixed order
// (so that x + 1 + y - x becomes y + 1).
func linNorm(t *Term) *Term {
	type mono struct {
		atom *Term
		c    *big.Int
	}
	ms := map[string]*mono{}
	var order []string
	k := big.NewInt(0)
	var walk func(t *Term, sign int64)
	walk = func(t *Term, sign int64) {
		r := t
		if r.Sym != nil && r.Sym.Def != nil && len(r.Args) == 0 {
			r = resolve(r)
		}
		switch {
		case r.IsLit && r.Sort == SInt:
			k.Add(k, new(big.Int).Mul(r.Int, big.NewInt(sign)))
		case r.Op == "+" && r.Sort == SInt:
			for _, a := range r.Args {
				walk(a, sign)
			}
		case r.Op == "-" && r.Sort == SInt && len(r.Args) == 2:
			walk(r.Args[0], sign)
			walk(r.Args[1], -sign)
		case r.Op == "-" && r.Sort == SInt && len(r.Args) == 1:
			walk(r.Args[0], -sign)
		default:
			key := t.String()
			m, ok := ms[key]
			if !ok {
				m = &mono{atom: t, c: big.NewInt(0)}
				ms[key] = m
				order = append(order, key)
			}
			m.c.Add(m.c, big.NewInt(sign))
		}
	}
	walk(t, 1)
	sort.Strings(order)
	var out *Term
	add := func(x *Term) {
		if out == nil {
			out = x
		} else {
			out = IAdd(out, x)
		}
	}
	var negs []*Term
	for _, key := range order {
		m := ms[key]
		switch {
		case m.c.Sign() == 0:
		case m.c.Cmp(big.NewInt(1)) == 0:
			add(m.atom)
		case m.c.Cmp(big.NewInt(-1)) == 0:
			negs = append(negs, m.atom)
		case m.c.Sign() > 0:
			add(IMul(&Term{IsLit: true, Int: new(big.Int).Set(m.c), Sort: SInt}, m.atom))
		default:
			negs = append(negs, IMul(&Term{IsLit: true, Int: new(big.Int).Neg(m.c), Sort: SInt}, m.atom))
		}
	}
	if k.Sign() > 0 || out == nil {
		if !(k.Sign() == 0 && (out != nil || len(negs) > 0)) {
			add(&Term{IsLit: true, Int: new(big.Int).Set(k), Sort: SInt})
		}
	}
	if out == nil {
		out = IntLit(0)
	}
	for _, n := range negs {
		out = ISub(out, n)
	}
	if k.Sign() < 0 {
		out = ISub(out, &Term{IsLit: true, Int: new(big.Int).Neg(k), Sort: SInt})
	}
	return out
}

func substTerm(t *Term, bind map[*Term]*Term, memo map[*Term]*Term) *Term {
	if b, ok := bind[t]; ok {
		return b
	}
	if r, ok := memo[t]; ok {
		return r
	}
	if len(t.Args) == 0 && t.Q == nil {
		return t
	}
	if t.Q != nil {
		// nested quantifier: substitute inside (bound names are distinct objects)
		nq := &Quant{Forall: t.Q.Forall, Vars: t.Q.Vars, Body: substTerm(t.Q.Body, bind, memo)}
		for _, p := range t.Q.Pats {
			nq.Pats = append(nq.Pats, substTerm(p, bind, memo))
		}
		r := &Term{Sort: SBool, Q: nq}
		memo[t] = r
		return r
	}
	changed := false
	args := make([]*Term, len(t.Args))
	for i, a := range t.Args {
		args[i] = substTerm(a, bind, memo)
		if args[i] != a {
			changed = true
		}
	}
	r := t
	if changed {
		r = &Term{Op: t.Op, Args: args, Sort: t.Sort, Sym: t.Sym}
		if extGround && t.Op == "+" && t.Sort == SInt && len(args) == 2 && t.Sym == nil {
			// an index pattern off + v instantiated at v := g - off (matchLinear)
			if n := linNorm(r); len(n.String()) < len(r.String()) {
				r = n
			}
		}
		if t.Op == "const-array" {
			r = ConstArray(t.Sort, args[0])
		}
	}
	memo[t] = r
	return r
}

// topQuants returns the quantified assumptions usable for instantiation:
// top-level universal assumptions (also under a conjunction / implication guard
// is not attempted) with at least one explicit pattern.
func topQuants(as []*Term) []*Term {
	var out []*Term
	for _, a := range as {
		if a.Q != nil && a.Q.Forall && len(a.Q.Pats) > 0 {
			out = append(out, a)
		}
	}
	return out
}

// instantiate produces ground instances of triggered quantifiers, goal first: the
// terms of the goal (then of the instances they produce) drive the matching; the
// patterns of a multi-pattern other than the driving one may match any ground
// term of the query. A last phase lets the assumptions' own terms drive.
func instantiate(as []*Term, goal *Term, rounds, cap int) []*Term {
	qs := topQuants(as)
	if len(qs) == 0 {
		return nil
	}
	var ground []*Term
	for _, a := range as {
		if !hasQuant(a) {
			ground = append(ground, a)
		}
	}
	type idx map[string][]*Term
	head := func(t *Term) string {
		r := t
		if r.Sym != nil && r.Sym.Def != nil && len(r.Args) == 0 {
			r = resolve(r)
		}
		return r.Op + "/" + r.Sort.Name
	}
	all := idx{}
	allSeen := map[string]bool{}
	addAll := func(ts []*Term) {
		for _, t := range ts {
			k := t.String()
			if allSeen[k] {
				continue
			}
			allSeen[k] = true
			h := head(t)
			all[h] = append(all[h], t)
		}
	}
	addAll(groundSubterms(append(append([]*Term{}, ground...), goal)))
	var insts []*Term
	seen := map[string]bool{}
	// extend: all ways to extend bind by matching pats[k:] (skipping index skip) against `all`
	var extend func(q *Term, k, skip int, bind map[*Term]*Term, out *[]map[*Term]*Term)
	extend = func(q *Term, k, skip int, bind map[*Term]*Term, out *[]map[*Term]*Term) {
		if len(*out) > 64 {
			return
		}
		if k == len(q.Q.Pats) {
			if len(bind) == len(q.Q.Vars) {
				*out = append(*out, bind)
			}
			return
		}
		if k == skip {
			extend(q, k+1, skip, bind, out)
			return
		}
		p := q.Q.Pats[k]
		for _, g := range all[head(p)] {
			nb := map[*Term]*Term{}
			for a, b := range bind {
				nb[a] = b
			}
			if matchTerm(p, g, q.Q.Vars, nb) {
				extend(q, k+1, skip, nb, out)
			}
		}
	}
	run := func(focus []*Term, maxRounds int) {
		for r := 0; r < maxRounds && len(insts) < cap && len(focus) > 0; r++ {
			fidx := idx{}
			for _, t := range focus {
				h := head(t)
				fidx[h] = append(fidx[h], t)
			}
			var fresh []*Term
			for _, q := range qs {
				for pi, p := range q.Q.Pats {
					for _, g := range fidx[head(p)] {
						bind := map[*Term]*Term{}
						if !matchTerm(p, g, q.Q.Vars, bind) {
							continue
						}
						var binds []map[*Term]*Term
						extend(q, 0, pi, bind, &binds)
						for _, b := range binds {
							body := substTerm(q.Q.Body, b, map[*Term]*Term{})
							k := body.String()
							if seen[k] {
								continue
							}
							seen[k] = true
							fresh = append(fresh, body)
						}
						if len(insts)+len(fresh) >= cap {
							break
						}
					}
				}
			}
			if len(fresh) == 0 {
				break
			}
			insts = append(insts, fresh...)
			focus = groundSubterms(fresh)
			addAll(focus)
		}
	}
	// goal-directed instances: a universal assumption is also instantiated at the Skolem
	// constants of the goal (every sort-consistent assignment). For "the invariant is preserved"
	// goals this is the instance of the hypothesis at the very objects the goal talks about,
	// which syntactic matching misses when the state in between was updated (the pattern's terms
	// over the old state do not occur in the goal).
	var seedTerms []*Term
	if extGround {
		var sks []*Term
		for _, t := range groundSubterms([]*Term{goal}) {
			if len(t.Args) == 0 && t.Q == nil && strings.HasPrefix(t.Op, "sk_") {
				sks = append(sks, t)
			}
		}
		// ... and, for integers, their neighbours (an element moved by one position)
		if n := len(sks); n > 0 && n <= 4 {
			for _, t := range sks[:n] {
				if t.Sort == SInt {
					sks = append(sks, IAdd(t, IntLit(1)), ISub(t, IntLit(1)))
				}
			}
		}
		var seeded []*Term
		if len(sks) > 0 && len(sks) <= 12 {
			for _, q := range qs {
				var binds []map[*Term]*Term
				var rec func(i int, b map[*Term]*Term)
				rec = func(i int, b map[*Term]*Term) {
					if len(binds) >= 64 {
						return
					}
					if i == len(q.Q.Vars) {
						nb := map[*Term]*Term{}
						for k, v := range b {
							nb[k] = v
						}
						binds = append(binds, nb)
						return
					}
					for _, sk := range sks {
						if sk.Sort == q.Q.Vars[i].Sort {
							b[q.Q.Vars[i]] = sk
							rec(i+1, b)
							delete(b, q.Q.Vars[i])
						}
					}
				}
				rec(0, map[*Term]*Term{})
				for _, b := range binds {
					body := substTerm(q.Q.Body, b, map[*Term]*Term{})
					k := body.String()
					if seen[k] {
						continue
					}
					seen[k] = true
					seeded = append(seeded, body)
				}
			}
		}
		if len(seeded) > 0 {
			insts = append(insts, seeded...)
			seedTerms = groundSubterms(seeded)
			addAll(seedTerms)
		}
	}
	run(groundSubterms([]*Term{goal}), rounds+1)
	run(groundSubterms(ground), rounds)
	if len(seedTerms) > 0 {
		run(seedTerms, rounds)
	}
	sort.SliceStable(insts, func(i, j int) bool { return len(insts[i].String()) < len(insts[j].String()) })
	return insts
}
