package main

import (
	"encoding/json"
	"flag"
	"fmt"
	"os"
	"path/filepath"
	"sort"
	"strconv"
	"strings"
	"sync"
	"time"
)

type oblResult struct {
	Name      string `json:"name"`
	Func      string `json:"func"`
	Kind      string `json:"kind"`
	Status    string `json:"status"` // discharged, failed, undecided, vacuous, covered
	Queries   int    `json:"queries"`
	Solver    string `json:"solver,omitempty"`
	Ms        int    `json:"ms"`
	Pos       string `json:"pos,omitempty"`
	Text      string `json:"text,omitempty"`
	Detail    string `json:"detail,omitempty"`
	failQuery *Query
	fv        *FuncVer
	ob        *Obligation
}

type knownFinding struct {
	Property   string `json:"property"`
	Obligation string `json:"obligation"`
	Status     string `json:"status"` // open | fixed
	What       string `json:"what"`
	Commit     string `json:"commit,omitempty"`
}

func main() {
	if len(os.Args) < 2 {
		fmt.Fprintln(os.Stderr, "usage: gocv check|dump ...")
		os.Exit(2)
	}
	switch os.Args[1] {
	case "check":
		os.Exit(cmdCheck(os.Args[2:]))
	default:
		fmt.Fprintln(os.Stderr, "unknown command")
		os.Exit(2)
	}
}

func cmdCheck(args []string) int {
	fs := flag.NewFlagSet("check", flag.ExitOnError)
	prop := fs.String("prop", "", "property id")
	tier := fs.String("tier", "quick", "quick|thorough")
	repo := fs.String("repo", "/repo", "repository root")
	verif := fs.String("verif", "/verif", "verif root")
	update := fs.Bool("update-list", false, "rewrite obligations/<prop>.list from this run")
	only := fs.String("func", "", "only functions whose name contains this")
	dump := fs.Bool("dump", false, "dump every SMT query")
	verbose := fs.Bool("v", false, "verbose")
	scratch := fs.String("scratch", "", "write evidence and out/ below this directory instead of the verif root (self-test)")
	fs.Parse(args)
	t0 := time.Now()
	seed := 0
	if s := os.Getenv("VERIF_SEED"); s != "" {
		seed, _ = strconv.Atoi(s)
	}
	eng, err := loadEngine(*repo, []string{"./..."})
	if err != nil {
		fmt.Fprintln(os.Stderr, "gocv: load failed:", err)
		return 2
	}
	loadS := time.Since(t0).Seconds()
	blocks := eng.functionsForProp(*prop)
	if len(blocks) == 0 {
		fmt.Fprintf(os.Stderr, "gocv: no function under contract carries %s\n", *prop)
		return 2
	}
	thorough := *tier == "thorough"
	timeout := 20 * time.Second
	if thorough {
		timeout = 60 * time.Second
	}
	var fvs []*FuncVer
	var specErrors []string
	for _, m := range eng.missing {
		fmt.Fprintln(os.Stderr, "gocv:", m)
		specErrors = append(specErrors, m)
	}
	for _, b := range blocks {
		if *only != "" && !strings.Contains(b.Flags["resolved"], *only) {
			continue
		}
		for _, asp := range aspectsOf(b) {
			afv, aerr := eng.verifyFuncAspect(b, *prop, asp)
			if aerr != nil {
				fmt.Fprintln(os.Stderr, "gocv:", aerr)
				specErrors = append(specErrors, aerr.Error())
				continue
			}
			fvs = append(fvs, afv)
		}
		fv, err := eng.verifyFunc(b, *prop)
		if err != nil {
			// the contract can no longer be evaluated against this code (e.g. it names a local or a
			// loop that is gone): none of the function's obligations is generated, so the listed
			// ones are reported as violated below
			fmt.Fprintln(os.Stderr, "gocv:", err)
			specErrors = append(specErrors, err.Error())
			continue
		}
		fvs = append(fvs, fv)
	}
	genS := time.Since(t0).Seconds() - loadS
	// solve
	type job struct {
		fv *FuncVer
		ob *Obligation
		q  *Query
		n  int
	}
	var jobs []job
	for _, fv := range fvs {
		for _, k := range fv.oblOrder {
			ob := fv.obls[k]
			for i, q := range ob.Queries {
				if ob.Cover && i > 0 {
					break // one job per cover obligation; it walks the queries itself
				}
				jobs = append(jobs, job{fv, ob, q, i})
			}
		}
	}
	outRoot := *verif
	if *scratch != "" {
		outRoot = *scratch
	}
	outDir := filepath.Join(outRoot, "out", *prop)
	os.RemoveAll(outDir)
	os.MkdirAll(outDir, 0o755)
	var wg sync.WaitGroup
	sem := make(chan struct{}, 12)
	var solverMs int64
	var mu, textMu sync.Mutex
	for _, j := range jobs {
		wg.Add(1)
		sem <- struct{}{}
		go func(j job) {
			defer wg.Done()
			defer func() { <-sem }()
			if j.ob.Cover {
				// reachability: satisfied by the first query that is not refuted
				for _, q := range j.ob.Queries {
					textMu.Lock()
					text := j.fv.smtText(q, false)
					textMu.Unlock()
					r := solve(text, 3*time.Second, false)
					q.Result, q.Solver, q.Ms, q.SMT = r.result, r.solver, r.ms, text
					if r.result != "unsat" {
						break
					}
				}
				return
			}
			// query texts are built one at a time: the term constructors share per-function caches
			textMu.Lock()
			text := j.fv.smtText(j.q, true)
			ground := j.fv.smtGround(j.q, false)
			textMu.Unlock()
			if *dump {
				dumpQuery(filepath.Join(outDir, "smt"), j.ob.Name, j.n, text)
			}
			to := timeout
			if j.ob.Cover {
				// reachability: only `unsat` matters (vacuity); do not wait for a model
				to = 3 * time.Second
			}
			if *dump && ground != "" {
				dumpQuery(filepath.Join(outDir, "smt"), j.ob.Name+".ground", j.n, ground)
			}
			r := solve2(text, ground, "", to, thorough && !j.ob.Cover)
			if r.result != "unsat" && r.result != "sat" && !j.ob.Cover {
				// second attempt: the instantiated text with the extended heuristics (larger and
				// slower to build, so only for what the first attempt left open)
				textMu.Lock()
				groundExt := j.fv.smtGround(j.q, true)
				textMu.Unlock()
				if groundExt != "" && groundExt != ground {
					if *dump {
						dumpQuery(filepath.Join(outDir, "smt"), j.ob.Name+".groundx", j.n, groundExt)
					}
					r2 := solve2("", "", groundExt, to, false)
					if r2.result == "unsat" {
						r2.ms += r.ms
						r2.all = r.all
						r = r2
					}
				}
			}
			j.q.Result, j.q.Solver, j.q.Ms, j.q.Model, j.q.SMT = r.result, r.solver, r.ms, r.model, text
			if r.result != "unsat" && r.result != "sat" && r.groundSat {
				j.q.Candidate = true
				j.q.Model = "(candidate model of the instantiated query; quantified assumptions dropped)\n" + r.groundModel
			}
			if os.Getenv("GOCV_DEBUG") != "" {
				fmt.Fprintf(os.Stderr, "query %s.%d: %s by %s in %dms all=%v\n", j.ob.Name, j.n, r.result, r.solver, r.ms, r.all)
			}
			mu.Lock()
			solverMs += int64(r.ms)
			mu.Unlock()
		}(j)
	}
	wg.Wait()
	// aggregate
	var results []*oblResult
	funcsUnder := []string{}
	var incompleteNotes []string
	for _, fv := range fvs {
		funcsUnder = append(funcsUnder, fv.shortName())
		// an unrolled loop whose unwinding assertion is not proved was not fully explored
		for _, k := range fv.oblOrder {
			ob := fv.obls[k]
			if ob.Kind != "unwind" {
				continue
			}
			for _, q := range ob.Queries {
				if q.Result != "unsat" {
					fv.incomplete = append(fv.incomplete, "unwinding assertion not proved: "+ob.Text)
					break
				}
			}
		}
		inc := len(fv.incomplete) > 0
		if inc {
			incompleteNotes = append(incompleteNotes, fmt.Sprintf("%s: %s", fv.shortName(), strings.Join(uniq(fv.incomplete), "; ")))
		}
		for _, k := range fv.oblOrder {
			ob := fv.obls[k]
			r := &oblResult{Name: ob.Name, Func: ob.Func, Kind: ob.Kind, Queries: len(ob.Queries), Pos: ob.PosStr, Text: ob.Text, fv: fv, ob: ob}
			if ob.Cover {
				r.Status = "vacuous"
				for _, q := range ob.Queries {
					if q.Result != "unsat" && q.Result != "" {
						r.Status = "covered"
						r.Solver = q.Solver
					}
					r.Ms += q.Ms
				}
			} else {
				r.Status = "discharged"
				for _, q := range ob.Queries {
					r.Ms += q.Ms
					if q.Solver != "" {
						r.Solver = q.Solver
					}
					switch q.Result {
					case "unsat":
					case "sat":
						if r.Status != "failed" {
							r.Status = "failed"
							r.failQuery = q
						}
					default:
						if r.Status == "discharged" || (r.Status == "undecided" && q.Candidate && !r.failQuery.Candidate) {
							r.Status = "undecided"
							r.Detail = q.Result
							if q.Candidate {
								r.Detail += " (candidate counterexample)"
							}
							r.failQuery = q
						}
					}
				}
				if inc && r.Status == "discharged" {
					r.Status = "undecided"
					r.Detail = "function not fully explored: " + trunc(strings.Join(uniq(fv.incomplete), "; "), 300)
				}
			}
			results = append(results, r)
		}
	}
	// committed list and known findings
	listPath := filepath.Join(*verif, "obligations", *prop+".list")
	listed := readList(listPath)
	kfs := readKnown(filepath.Join(*verif, "known_findings.json"))
	isKnown := func(name string) *knownFinding {
		for i := range kfs {
			if kfs[i].Property == *prop && kfs[i].Status == "open" && kfs[i].Obligation == name {
				return &kfs[i]
			}
		}
		return nil
	}
	byName := map[string]*oblResult{}
	for _, r := range results {
		byName[r.Name] = r
	}
	if *update && len(specErrors) > 0 {
		fmt.Fprintln(os.Stderr, "gocv: refusing to rewrite the obligation list: contracts could not be evaluated (see above)")
		return 2
	}
	if *update {
		var names []string
		for _, r := range results {
			if r.Status == "discharged" || r.Status == "covered" {
				names = append(names, r.Name)
			}
		}
		sort.Strings(names)
		os.MkdirAll(filepath.Dir(listPath), 0o755)
		os.WriteFile(listPath, []byte(strings.Join(names, "\n")+"\n"), 0o644)
		listed = map[string]bool{}
		for _, n := range names {
			listed[n] = true
		}
	}
	type violation struct {
		name, why, replay string
		noInput            bool
	}
	var viols []violation
	var knownLines []string
	replayDir := filepath.Join(outRoot, "out", "replay", *prop)
	os.RemoveAll(replayDir)
	report := func(r *oblResult, name, why string) {
		if kf := isKnown(name); kf != nil {
			knownLines = append(knownLines, fmt.Sprintf("KNOWN-FINDING: property=%s %s [%s]", *prop, kf.What, name))
			return
		}
		path, replayed := writeReplay(replayDir, *prop, name, why, r, *repo, *verif)
		viols = append(viols, violation{name, why, path, !replayed})
	}
	for name := range listed {
		r, ok := byName[name]
		if !ok && *only != "" {
			continue // debugging a subset of functions
		}
		switch {
		case !ok && !contractLevel(name):
			// automatically generated safety obligations (bounds, nil, ...) and call-site
			// obligations vanish when the expression or call is removed: not a violation
		case !ok:
			why := "obligation is no longer generated (the function, loop, call site or clause it is keyed on disappeared)"
			if len(specErrors) > 0 {
				why += "; contract evaluation errors: " + trunc(strings.Join(specErrors, "; "), 400)
			}
			report(nil, name, why)
		case r.Status == "discharged" || r.Status == "covered":
		default:
			report(r, name, "previously discharged obligation is now "+r.Status+" "+r.Detail)
		}
	}
	for _, r := range results {
		if listed[r.Name] {
			continue
		}
		if r.Status == "failed" || r.Status == "vacuous" {
			report(r, r.Name, "new obligation is "+r.Status)
		} else if r.Status == "undecided" && r.failQuery != nil && r.failQuery.Candidate && isKnown(r.Name) == nil {
			// not refuted and a candidate counterexample exists: search for a failing input on the real code
			path, replayed := writeReplay(replayDir, *prop, r.Name, "new obligation is undecided with a candidate counterexample", r, *repo, *verif)
			if replayed {
				viols = append(viols, violation{r.Name, "new obligation is undecided and the replay reproduces a failure on the real code", path, false})
			}
		} else if r.Status == "undecided" && isKnown(r.Name) != nil {
			report(r, r.Name, "known")
		}
	}
	// bounded stand-ins (labelled bounded, never counted as proved)
	bounded := runBounded(*prop, *tier, *repo, *verif, outRoot)
	for _, b := range bounded {
		if b.failed {
			name := *prop + "/bounded:" + b.Name
			if kf := isKnown(name); kf != nil {
				knownLines = append(knownLines, fmt.Sprintf("KNOWN-FINDING: property=%s %s [%s]", *prop, kf.What, name))
				continue
			}
			os.MkdirAll(replayDir, 0o755)
			p := filepath.Join(replayDir, fileSafe(name)+".txt")
			os.WriteFile(p, []byte(fmt.Sprintf("property: %s\nfailed bounded check: %s\nbound: %s\ncommand: %s\n%s\n", *prop, b.Name, b.Bound, b.Cmd, trunc(b.output, 20000))), 0o644)
			viols = append(viols, violation{name, "bounded stand-in found a failing input", p, false})
		}
	}
	// evidence
	nDis, nObl := 0, 0
	var undecided []string
	var samples []any
	perObl := []map[string]any{}
	for _, r := range results {
		if listed[r.Name] {
			nObl++
			if r.Status == "discharged" || r.Status == "covered" {
				nDis++
			}
		} else if r.Status == "undecided" {
			undecided = append(undecided, r.Name+" ("+r.Detail+")")
		}
		perObl = append(perObl, map[string]any{"name": r.Name, "status": r.Status, "queries": r.Queries, "solver": r.Solver, "ms": r.Ms, "pos": r.Pos, "claimed": listed[r.Name]})
	}
	for _, r := range results {
		if listed[r.Name] && len(r.ob.Queries) > 0 && len(samples) < 3 {
			q := r.ob.Queries[0]
			samples = append(samples, map[string]any{"obligation": r.Name, "statement": r.Text, "result": q.Result, "solver": q.Solver, "smt2": trunc(q.SMT, 6000)})
		}
	}
	if len(samples) == 0 && len(results) > 0 {
		samples = append(samples, map[string]any{"obligation": results[0].Name, "statement": results[0].Text})
	}
	missing := 0
	for name := range listed {
		if _, ok := byName[name]; !ok {
			missing++
			nObl++
		}
	}
	ev := map[string]any{
		"property_id": *prop,
		"tier":        *tier,
		"seed":        seed,
		"level":       "proof",
		"coverage": map[string]any{
			"obligations":              nObl,
			"discharged":               nDis,
			"checker_cmd":              fmt.Sprintf("bin/gocv check -prop %s -tier %s (VC generation over go/ssa NaiveForm of /repo with -tags=verif; solvers z3 5.1.0, z3 4.8.12, cvc5 1.0)", *prop, *tier),
			"trusted_base":             trustedBase(eng, fvs),
			"functions_under_contract": funcsUnder,
			"obligations_generated":    len(results),
			"queries":                  len(jobs),
			"per_obligation":           perObl,
			"undecided_not_claimed":    undecided,
			"incomplete_functions":     incompleteNotes,
			"contract_errors":          specErrors,
			"known_findings":           knownLines,
			"bounded":                  bounded,
			"samples":                  samples,
			"solver_ms_total":          solverMs,
			"load_s":                   loadS,
			"vcgen_s":                  genS,
			"integer_semantics":        "LIA with exact 64-bit wrap-around (functions marked mode bv64: bit-vectors); types.Currency is treated through assumed contracts",
		},
		"assumptions": assumptionsList(eng, fvs),
		"wall_s":      time.Since(t0).Seconds(),
		"violations":  len(viols),
	}
	evPath := filepath.Join(outRoot, "evidence", *prop+".json")
	os.MkdirAll(filepath.Dir(evPath), 0o755)
	data, _ := json.MarshalIndent(ev, "", " ")
	os.WriteFile(evPath, data, 0o644)

	if *verbose || len(viols) > 0 {
		for _, r := range results {
			mark := " "
			if listed[r.Name] {
				mark = "*"
			}
			fmt.Fprintf(os.Stderr, "%s %-11s %5dms q=%-3d %s  %s\n", mark, r.Status, r.Ms, r.Queries, r.Name, r.Detail)
		}
		for _, n := range incompleteNotes {
			fmt.Fprintln(os.Stderr, "incomplete:", n)
		}
	}
	for _, l := range knownLines {
		fmt.Println(l)
	}
	fmt.Fprintf(os.Stderr, "gocv %s %s: %d functions, %d obligations generated, %d claimed, %d discharged, %d queries, %.1fs (load %.1fs)\n",
		*prop, *tier, len(fvs), len(results), nObl, nDis, len(jobs), time.Since(t0).Seconds(), loadS)
	if len(viols) > 0 {
		sort.Slice(viols, func(i, j int) bool { return viols[i].name < viols[j].name })
		for _, v := range viols {
			suffix := ""
			if v.noInput {
				suffix = " no-failing-input-found"
			}
			fmt.Fprintf(os.Stderr, "violated obligation: %s: %s\n", v.name, v.why)
			fmt.Printf("VIOLATION property=%s replay=%s%s\n", *prop, v.replay, suffix)
		}
		return 1
	}
	if nObl == 0 && !*update {
		fmt.Fprintln(os.Stderr, "gocv: no claimed obligations for", *prop)
		return 2
	}
	return 0
}

// contractLevel: obligations that come from a clause written in a contract on
// the function itself (their disappearance means the contract can no longer be checked).
func contractLevel(name string) bool {
	// per-site covers (cover:loop:.., cover:return@..) disappear with the statement they sit on
	if strings.Contains(name, "/cover:loop:") || strings.Contains(name, "/cover:return@") {
		return false
	}
	return strings.Contains(name, "/ensures[") || strings.Contains(name, "/cover:")
}

func uniq(ss []string) []string {
	seen := map[string]bool{}
	var out []string
	for _, s := range ss {
		if !seen[s] {
			seen[s] = true
			out = append(out, s)
		}
	}
	return out
}

func readList(p string) map[string]bool {
	out := map[string]bool{}
	data, err := os.ReadFile(p)
	if err != nil {
		return out
	}
	for _, l := range strings.Split(string(data), "\n") {
		l = strings.TrimSpace(l)
		if l != "" && !strings.HasPrefix(l, "#") {
			out[l] = true
		}
	}
	return out
}

func readKnown(p string) []knownFinding {
	data, err := os.ReadFile(p)
	if err != nil {
		return nil
	}
	var f struct {
		Findings []knownFinding `json:"findings"`
	}
	if err := json.Unmarshal(data, &f); err != nil {
		fmt.Fprintln(os.Stderr, "gocv: bad known_findings.json:", err)
	}
	return f.Findings
}

func writeReplay(dir, prop, name, why string, r *oblResult, repo, verif string) (string, bool) {
	os.MkdirAll(dir, 0o755)
	p := filepath.Join(dir, fileSafe(name)+".txt")
	var sb strings.Builder
	fmt.Fprintf(&sb, "property: %s\nfailed obligation: %s\nreason: %s\n", prop, name, why)
	if r != nil {
		fmt.Fprintf(&sb, "function: %s\nstatement: %s\nsource: %s\nstatus: %s\n", r.Func, r.Text, r.Pos, r.Status)
		if q := r.failQuery; q != nil {
			fmt.Fprintf(&sb, "solver: %s result: %s\npath: %s\n", q.Solver, q.Result, strings.Join(q.Trace, " "))
			fmt.Fprintf(&sb, "---- solver output (model) ----\n%s\n", trunc(q.Model, 20000))
			fmt.Fprintf(&sb, "---- query ----\n%s\n", trunc(q.SMT, 60000))
		}
	}
	os.WriteFile(p, []byte(sb.String()), 0o644)
	replayed := false
	// the replay templates search for a failing input on the real code; they are
	// run for every failed obligation, with or without a solver model
	replayed = tryReplay(prop, name, r, p, repo, verif)
	return p, replayed
}

func trustedBase(e *Engine, fvs []*FuncVer) []string {
	out := []string{
		"gocv VC generator (this repository's /verif/gocv) and its memory/integer model (DESIGN.md 2.4-2.5)",
		"go/ssa (x/tools v0.50.0) translation of the Go source",
		"SMT solvers z3 5.1.0 / z3 4.8.12 / cvc5 1.0",
	}
	seen := map[string]bool{}
	for _, b := range e.allBlocks {
		if b.Kind == "extern" || b.Kind == "iface" {
			k := b.Kind + " " + b.Name
			if b.Has("pure") {
				k += " (pure, uninterpreted)"
			} else {
				k += " (assumed contract)"
			}
			if !seen[k] {
				seen[k] = true
			}
		}
	}
	n := 0
	for range seen {
		n++
	}
	out = append(out, fmt.Sprintf("%d assumed contracts on dependency functions and interface methods (extern/iface blocks in */contracts*_verif.go)", n))
	out = append(out, "std-lib models in gocv/models.go (append, copy, encoding/binary, slices.Clone/Reverse, sort.Slice as an unspecified permutation of the slice with a side-effect-free less, errors/fmt as fresh values)")
	return out
}

func assumptionsList(e *Engine, fvs []*FuncVer) []string {
	out := []string{
		"A1 dependency contracts (extern blocks) are assumed, not proved",
		"A2 cryptographic primitives are deterministic uninterpreted functions",
		"A4 a mutex-protected section is atomic; no interleaving is explored",
		"A5 no reasoning about scheduling, termination or memory exhaustion",
		"A7 logging/formatting has no contract-visible effect",
		"A8 induction from per-call contracts to whole histories is not mechanised",
		"panicking paths of functions without `nopanic` end the path (their postconditions are not checked)",
	}
	for _, fv := range fvs {
		for _, cl := range fv.block.ClausesOf("requires") {
			out = append(out, fmt.Sprintf("precondition assumed for %s: %s", fv.shortName(), cl.Text))
		}
		for _, cl := range fv.block.ClausesOf("ensures") {
			if strings.HasPrefix(cl.Name, "assumed:") {
				out = append(out, fmt.Sprintf("NOT PROVED: postcondition [%s] of %s is assumed at its call sites: %s", strings.TrimPrefix(cl.Name, "assumed:"), fv.shortName(), cl.Text))
			}
		}
		if fv.block.Flags["frame"] == "assumed" {
			out = append(out, fmt.Sprintf("NOT PROVED: the assigns clause of %s (%s) is assumed at its call sites", fv.shortName(), fv.block.Flags["assigns"]))
		}
		for _, cl := range fv.block.ClausesOf("assumeafter") {
			out = append(out, fmt.Sprintf("ASSUMED, not proved, in %s after %s [%s]: %s", fv.shortName(), cl.Target, cl.Name, cl.Text))
		}
		for n := range fv.trustedCalls {
			out = append(out, fmt.Sprintf("NOT PROVED: %s establishes the preconditions of %s at its call sites (trustcalls)", fv.shortName(), n))
		}
	}
	return out
}
