package main

import (
	"fmt"
	"go/types"
	"os"
	"strings"

	"golang.org/x/tools/go/packages"
	"golang.org/x/tools/go/ssa"
	"golang.org/x/tools/go/ssa/ssautil"
)

func main() {
	pkgPath := os.Args[1]
	fn := os.Args[2]
	cfg := &packages.Config{Mode: packages.LoadAllSyntax, Dir: "/repo", BuildFlags: []string{"-tags=verif"}}
	pkgs, err := packages.Load(cfg, pkgPath)
	if err != nil {
		panic(err)
	}
	prog, spkgs := ssautil.AllPackages(pkgs, ssa.NaiveForm|ssa.GlobalDebug|ssa.InstantiateGenerics)
	prog.Build()
	for _, p := range spkgs {
		if p == nil {
			continue
		}
		for _, m := range p.Members {
			if f, ok := m.(*ssa.Function); ok {
				dump(f, fn)
			}
			if t, ok := m.(*ssa.Type); ok {
				for _, ty := range []interface{ NumMethods() int }{} {
					_ = ty
				}
				ms := prog.MethodSets.MethodSet(t.Type())
				for i := 0; i < ms.Len(); i++ {
					if f := prog.MethodValue(ms.At(i)); f != nil {
						dump(f, fn)
					}
				}
				ms = prog.MethodSets.MethodSet(ptrTo(t))
				for i := 0; i < ms.Len(); i++ {
					if f := prog.MethodValue(ms.At(i)); f != nil {
						dump(f, fn)
					}
				}
			}
		}
	}
}

var seen = map[*ssa.Function]bool{}

func dump(f *ssa.Function, pat string) {
	if seen[f] {
		return
	}
	seen[f] = true
	if strings.Contains(f.String(), pat) {
		f.WriteTo(os.Stdout)
		fmt.Println()
	}
	for _, a := range f.AnonFuncs {
		dump(a, pat)
	}
}

func ptrTo(t *ssa.Type) types.Type { return types.NewPointer(t.Type()) }
