package syncer

// Bounded stand-in for the per-subnet clause of C18: the per-subnet limit counts the handlers of
// one SUBNET, so the key two connections are grouped under must be the same exactly when their
// addresses lie in the same configured prefix.
//   TestGocvBoundedC18SubnetKey   real subnetKey, IPv4 prefixes /8 /16 /24 /32 and IPv6 /48 /64,
//                                 pairs of addresses inside and across subnets, with and without port

import (
	"fmt"
	"net"
	"os"
	"testing"
)

func TestGocvBoundedC18SubnetKey(t *testing.T) {
	cases, failures := 0, 0
	check := func(s *Syncer, a, b string) {
		cases++
		ipa, ipb := net.ParseIP(a), net.ParseIP(b)
		bits, size := s.config.InflightIPv6PrefixBits, 128
		if ipa.To4() != nil {
			bits, size = s.config.InflightIPv4PrefixBits, 32
		}
		mask := net.CIDRMask(bits, size)
		na, nb := ipa, ipb
		if ipa.To4() != nil {
			na, nb = ipa.To4(), ipb.To4()
		}
		same := na.Mask(mask).Equal(nb.Mask(mask))
		ka, kb := s.subnetKey(net.JoinHostPort(a, "9981")), s.subnetKey(net.JoinHostPort(b, "1234"))
		if ka == "" || kb == "" || (ka == kb) != same {
			failures++
			t.Errorf("GOCV-REPLAY-FAIL scenario=subnet-key prefix=/%d: %s -> %q, %s -> %q; same subnet: %v", bits, a, ka, b, kb, same)
		}
		if s.subnetKey(a) != ka {
			failures++
			t.Errorf("GOCV-REPLAY-FAIL scenario=subnet-key: key of %s depends on the port", a)
		}
	}
	for _, bits := range []int{8, 16, 24, 32} {
		s := &Syncer{}
		s.config.InflightIPv4PrefixBits, s.config.InflightIPv6PrefixBits = bits, 48
		for _, p := range [][2]string{{"127.0.0.1", "127.0.0.2"}, {"10.1.2.3", "10.1.2.200"}, {"10.1.2.3", "10.1.3.3"}, {"10.1.2.3", "10.2.2.3"}, {"10.1.2.3", "11.1.2.3"}, {"192.168.7.9", "192.168.7.9"}} {
			check(s, p[0], p[1])
		}
	}
	for _, bits := range []int{48, 64} {
		s := &Syncer{}
		s.config.InflightIPv4PrefixBits, s.config.InflightIPv6PrefixBits = 32, bits
		for _, p := range [][2]string{{"2001:db8:1:1::1", "2001:db8:1:1::2"}, {"2001:db8:1:1::1", "2001:db8:1:2::1"}, {"2001:db8:1:1::1", "2001:db8:2:1::1"}} {
			check(s, p[0], p[1])
		}
	}
	fmt.Fprintf(os.Stdout, "GOCV-BOUNDED cases=%d failures=%d\n", cases, failures)
}
