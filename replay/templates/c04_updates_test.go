package chain_test

// Replay for C04 (written by /verif, injected with `go test -overlay`).
// Subscribers starting on every index of a stale branch, at genesis and at the
// zero index follow the manager through a reorg in chunks of every size.

import (
	"fmt"
	"strings"
	"testing"
	"time"

	"go.sia.tech/core/types"
	"go.sia.tech/coreutils"
	"go.sia.tech/coreutils/chain"
	"go.sia.tech/coreutils/testutil"
)

func gocvMine04(t *testing.T, cm *chain.Manager, n int) (blocks []types.Block) {
	t.Helper()
	for i := 0; i < n; i++ {
		b, ok := coreutils.MineBlock(cm, types.AnyoneCanSpend().Address(), 5*time.Second)
		if !ok {
			t.Fatal("failed to mine block")
		} else if err := cm.AddBlocks([]types.Block{b}); err != nil {
			t.Fatal(err)
		}
		blocks = append(blocks, b)
	}
	return
}

func TestGocvReplayC04(t *testing.T) {
	var fails []string
	cases := 0
	n, genesisBlock := testutil.V2Network()
	newCM := func() *chain.Manager {
		store, tipState, err := chain.NewDBStore(chain.NewMemDB(), n, genesisBlock, nil)
		if err != nil {
			t.Fatal(err)
		}
		return chain.NewManager(store, tipState)
	}
	const lenA, lenB = 3, 5
	cm := newCM()
	other := newCM()
	common := gocvMine04(t, cm, 2)
	if err := other.AddBlocks(common); err != nil {
		t.Fatal(err)
	}
	gocvMine04(t, cm, lenA)
	// indices of the stale branch (still held by the store after the reorg)
	var starts []types.ChainIndex
	starts = append(starts, types.ChainIndex{})
	for h := uint64(0); h <= cm.Tip().Height; h++ {
		idx, _ := cm.BestIndex(h)
		starts = append(starts, idx)
	}
	// reorg notifications
	var notified []types.ChainIndex
	cm.OnReorg(func(idx types.ChainIndex) { notified = append(notified, idx) })
	time.Sleep(1100 * time.Millisecond) // distinct timestamps => distinct blocks on the other branch
	bBlocks := gocvMine04(t, other, lenB)
	if err := cm.AddBlocks(bBlocks); err != nil {
		t.Fatal(err)
	}
	if cm.Tip() != other.Tip() {
		t.Fatalf("setup: no reorg happened (%v vs %v)", cm.Tip(), other.Tip())
	}
	if len(notified) != 1 || notified[0] != cm.Tip() {
		fails = append(fails, fmt.Sprintf("one AddBlocks call that reorged delivered notifications %v, want exactly [%v]", notified, cm.Tip()))
	}
	// resubmitting known blocks changes nothing and must not notify
	notified = nil
	if err := cm.AddBlocks(bBlocks); err != nil {
		t.Fatal(err)
	}
	if len(notified) != 0 {
		fails = append(fails, fmt.Sprintf("AddBlocks of already known blocks notified listeners: %v", notified))
	}
	best := func(h uint64) types.ChainIndex { idx, _ := cm.BestIndex(h); return idx }
	for _, start := range starts {
		for chunk := 1; chunk <= 4; chunk++ {
			cases++
			cursor := start
			applied := false
			steps := 0
			for cursor != cm.Tip() {
				steps++
				if steps > 50 {
					fails = append(fails, fmt.Sprintf("start %v chunk %d: no progress", start, chunk))
					break
				}
				rus, aus, err := cm.UpdatesSince(cursor, chunk)
				if err != nil {
					fails = append(fails, fmt.Sprintf("start %v chunk %d: error %v", start, chunk, err))
					break
				}
				if len(rus)+len(aus) > chunk {
					fails = append(fails, fmt.Sprintf("start %v chunk %d: %d updates returned", start, chunk, len(rus)+len(aus)))
				}
				if len(rus)+len(aus) == 0 {
					fails = append(fails, fmt.Sprintf("start %v chunk %d: empty result before reaching the tip (cursor %v)", start, chunk, cursor))
					break
				}
				for _, ru := range rus {
					if applied {
						fails = append(fails, fmt.Sprintf("start %v chunk %d: revert after an apply", start, chunk))
					}
					revIdx := types.ChainIndex{Height: ru.State.Index.Height + 1, ID: ru.Block.ID()}
					if revIdx != cursor {
						fails = append(fails, fmt.Sprintf("start %v chunk %d: revert of %v but the subscriber is at %v", start, chunk, revIdx, cursor))
					}
					if ru.Block.ParentID != ru.State.Index.ID {
						fails = append(fails, fmt.Sprintf("start %v chunk %d: revert update state %v is not the parent of block %v", start, chunk, ru.State.Index, revIdx))
					}
					cursor = ru.State.Index
				}
				for _, au := range aus {
					applied = true
					if au.State.Index.ID != au.Block.ID() {
						fails = append(fails, fmt.Sprintf("start %v chunk %d: apply update state %v does not belong to block %v", start, chunk, au.State.Index, au.Block.ID()))
					}
					if cursor != (types.ChainIndex{}) && au.Block.ParentID != cursor.ID {
						fails = append(fails, fmt.Sprintf("start %v chunk %d: applied block %v does not attach to the subscriber's index %v", start, chunk, au.State.Index, cursor))
					}
					if au.State.Index != best(au.State.Index.Height) {
						fails = append(fails, fmt.Sprintf("start %v chunk %d: applied %v is not on the best chain", start, chunk, au.State.Index))
					}
					cursor = au.State.Index
				}
			}
		}
	}
	t.Logf("GOCV-BOUNDED cases=%d failures=%d", cases, len(fails))
	if len(fails) > 0 {
		if len(fails) > 12 {
			fails = fails[:12]
		}
		t.Fatalf("GOCV-REPLAY-FAIL %s", strings.Join(fails, "\n  "))
	}
}
