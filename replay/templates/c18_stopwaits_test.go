package threadgroup

// Bounded stand-in for the shutdown clause of C18 ("Close returns only after all background work
// has stopped"), adapted from the demonstration of seed C18-e. Real ThreadGroup; scenario test with
// real goroutines and sleeps, not a proof.
//   TestGocvBoundedC18StopWaits   a thread admitted by Add / AddContext is running until it calls
//                                 the function it was handed. Whatever happens to the context the
//                                 thread was registered with (background, cancelled before or
//                                 after registration, deadline passed), Stop returns only after
//                                 every admitted thread has called it.

import (
	"context"
	"fmt"
	"os"
	"sync/atomic"
	"testing"
	"time"
)

func TestGocvBoundedC18StopWaits(t *testing.T) {
	cases, failures := 0, 0
	type parentFn func() (context.Context, func())
	parents := map[string]parentFn{
		"background": func() (context.Context, func()) { return context.Background(), func() {} },
		"cancelled-after-registration": func() (context.Context, func()) {
			return context.WithCancel(context.Background())
		},
		"deadline-passes-while-running": func() (context.Context, func()) {
			ctx, cancel := context.WithTimeout(context.Background(), 5*time.Millisecond)
			return ctx, func() { time.Sleep(20 * time.Millisecond); cancel() }
		},
		"cancelled-before-registration": func() (context.Context, func()) {
			ctx, cancel := context.WithCancel(context.Background())
			cancel()
			return ctx, func() {}
		},
	}
	for name, mk := range parents {
		for nthreads := 1; nthreads <= 3; nthreads++ {
			cases++
			tg := New()
			var running atomic.Int32
			var affect []func()
			for i := 0; i < nthreads; i++ {
				parent, f := mk()
				affect = append(affect, f)
				_, done, err := tg.AddContext(parent)
				if err != nil {
					t.Fatal(err)
				}
				running.Add(1)
				go func() {
					// work that outlives whatever happens to the parent context
					time.Sleep(60 * time.Millisecond)
					running.Add(-1)
					done()
				}()
			}
			// one more thread through plain Add
			done, err := tg.Add()
			if err != nil {
				t.Fatal(err)
			}
			running.Add(1)
			go func() {
				time.Sleep(40 * time.Millisecond)
				running.Add(-1)
				done()
			}()
			for _, f := range affect {
				f()
			}
			tg.Stop()
			if n := running.Load(); n != 0 {
				failures++
				t.Errorf("GOCV-REPLAY-FAIL scenario=stop-waits parent=%s threads=%d: Stop returned while %d admitted threads were still running", name, nthreads, n)
			}
			if _, _, err := tg.AddContext(context.Background()); err != ErrClosed {
				failures++
				t.Errorf("GOCV-REPLAY-FAIL scenario=stop-waits parent=%s: AddContext after Stop: %v", name, err)
			}
			time.Sleep(70 * time.Millisecond)
		}
	}
	fmt.Fprintf(os.Stdout, "GOCV-BOUNDED cases=%d failures=%d\n", cases, failures)
}
