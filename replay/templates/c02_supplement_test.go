package chain

// Bounded stand-in for the "supplements it hands out" clause of C02 (adapted from the
// demonstration of seed C02-e): a node that applied blocks across the v2 require height and then
// went back below it -- by reverting its tip, and by reorganising onto a heavier fork -- serves the
// same transaction / block supplements as a node that only ever saw the final chain.
//   TestGocvBoundedC02SupplementsAcrossRequireHeight   (two scenarios)

// Demonstration for property C02 (chain state depends only on the best chain,
// not on the reorgs witnessed).
//
// Copy this file into the chain/ directory (package chain, internal test
// package; it reuses findBlockNonce and (*Manager).ForceRevertTip from
// chain/manager_test.go) and run:
//
//	go test -vet=off -count=1 -run 'TestC02Demo' ./chain/

import (
	"os"
	"fmt"
	"reflect"
	"testing"
	"time"

	"go.sia.tech/core/consensus"
	"go.sia.tech/core/types"
	"lukechampine.com/frand"
)

const (
	c02AllowHeight   = 4
	c02RequireHeight = 5
)

// c02Network returns a test network whose v2 require height is low enough to be
// crossed (in both directions) by a short reorg, and whose genesis block gifts
// one siacoin output to sk.
func c02Network() (*consensus.Network, types.Block, types.PrivateKey, types.SiacoinOutputID) {
	n, genesis := TestnetZen()
	n.InitialTarget = types.BlockID{0xFF}
	n.BlockInterval = time.Second
	n.MaturityDelay = 5
	n.HardforkDevAddr.Height = 1
	n.HardforkTax.Height = 1
	n.HardforkStorageProof.Height = 1
	n.HardforkOak.Height = 1
	n.HardforkASIC.Height = 1
	n.HardforkFoundation.Height = 1
	n.HardforkV2.AllowHeight = c02AllowHeight
	n.HardforkV2.RequireHeight = c02RequireHeight
	n.HardforkV2.FinalCutHeight = c02RequireHeight + 50

	sk := types.GeneratePrivateKey()
	addr := types.StandardUnlockConditions(sk.PublicKey()).UnlockHash()
	genesis.Transactions[0].SiacoinOutputs = []types.SiacoinOutput{
		{Address: addr, Value: types.Siacoins(1000)},
	}
	return n, genesis, sk, genesis.Transactions[0].SiacoinOutputID(0)
}

func c02NewNode(t *testing.T, n *consensus.Network, genesis types.Block) (*Manager, *DBStore) {
	t.Helper()
	store, ts, err := NewDBStore(NewMemDB(), n, genesis, nil)
	if err != nil {
		t.Fatal(err)
	}
	return NewManager(store, ts), store
}

// c02Mine mines one block with the given v1 transactions on top of cm's tip,
// adds it to cm and returns it.
func c02Mine(t *testing.T, cm *Manager, txns ...types.Transaction) types.Block {
	t.Helper()
	cs := cm.TipState()
	addr := types.Address(frand.Entropy256()) // also makes every block unique
	b := types.Block{
		ParentID:     cs.Index.ID,
		Timestamp:    types.CurrentTimestamp(),
		MinerPayouts: []types.SiacoinOutput{{Value: cs.BlockReward(), Address: addr}},
		Transactions: txns,
	}
	if h := cs.Index.Height + 1; h >= cs.Network.HardforkV2.AllowHeight {
		b.V2 = &types.V2BlockData{Height: h}
		b.V2.Commitment = cs.Commitment(addr, b.Transactions, b.V2Transactions())
	}
	findBlockNonce(cs, &b)
	if err := cm.AddBlocks([]types.Block{b}); err != nil {
		t.Fatal(err)
	}
	return b
}

// c02SpendGift returns a signed v1 transaction that spends the genesis gift.
func c02SpendGift(cs consensus.State, sk types.PrivateKey, giftID types.SiacoinOutputID) types.Transaction {
	uc := types.StandardUnlockConditions(sk.PublicKey())
	txn := types.Transaction{
		SiacoinInputs:  []types.SiacoinInput{{ParentID: giftID, UnlockConditions: uc}},
		SiacoinOutputs: []types.SiacoinOutput{{Value: types.Siacoins(1000), Address: uc.UnlockHash()}},
		Signatures: []types.TransactionSignature{
			{ParentID: types.Hash256(giftID), CoveredFields: types.CoveredFields{WholeTransaction: true}},
		},
	}
	sig := sk.SignHash(cs.WholeSigHash(txn, types.Hash256(giftID), 0, 0, nil))
	txn.Signatures[0].Signature = sig[:]
	return txn
}

// Apply blocks up to and beyond the v2 require height, then revert them again:
// the store must serve exactly what a node that never went beyond the lower
// tip serves.
func gocvC02SupplementAfterRevert(t *testing.T) {
	n, genesis, sk, giftID := c02Network()

	cmX, storeX := c02NewNode(t, n, genesis)
	var blocks []types.Block
	for range c02RequireHeight + 2 {
		blocks = append(blocks, c02Mine(t, cmX))
	}
	if cmX.Tip().Height != c02RequireHeight+2 {
		t.Fatal("unexpected tip", cmX.Tip())
	}

	// linear reference node: only ever sees the first two blocks
	cmL, storeL := c02NewNode(t, n, genesis)
	if err := cmL.AddBlocks(blocks[:2]); err != nil {
		t.Fatal(err)
	}

	// revert the witness down to the same tip
	for cmX.Tip().Height > 2 {
		if err := cmX.ForceRevertTip(); err != nil {
			t.Fatal(err)
		}
	}
	if cmX.Tip() != cmL.Tip() {
		t.Fatalf("tips differ: %v vs %v", cmX.Tip(), cmL.Tip())
	}

	txn := c02SpendGift(cmL.TipState(), sk, giftID)
	tsL := storeL.SupplementTipTransaction(txn)
	tsX := storeX.SupplementTipTransaction(txn)
	if len(tsL.SiacoinInputs) != 1 {
		t.Fatalf("linear node: expected 1 supplemented input, got %d", len(tsL.SiacoinInputs))
	}
	if !reflect.DeepEqual(tsL, tsX) {
		t.Errorf("transaction supplement differs after apply+revert across the require height:\n linear:  %+v\n witness: %+v", tsL, tsX)
	}
	b := types.Block{ParentID: cmL.Tip().ID, Transactions: []types.Transaction{txn}}
	if bsL, bsX := storeL.SupplementTipBlock(b), storeX.SupplementTipBlock(b); !reflect.DeepEqual(bsL, bsX) {
		t.Errorf("block supplement differs after apply+revert across the require height:\n linear:  %+v\n witness: %+v", bsL, bsX)
	}
	// the transaction is valid on this tip, so both pools must take it
	if _, err := cmL.AddPoolTransactions([]types.Transaction{txn}); err != nil {
		t.Fatal("linear node rejected the transaction:", err)
	}
	if _, err := cmX.AddPoolTransactions([]types.Transaction{txn}); err != nil {
		t.Error("witness node rejected a transaction that is valid on its tip:", err)
	}
}

// A node that is beyond the v2 require height learns of a heavier fork that
// branches off below it and carries a v1 transaction below the require height.
// It must end up exactly where a node that only ever saw the fork ends up.
func gocvC02ReorgAcross(t *testing.T) {
	n, genesis, sk, giftID := c02Network()

	// chain A: empty blocks up to require height + 1, seen first by the witness
	cmX, storeX := c02NewNode(t, n, genesis)
	for range c02RequireHeight + 1 {
		c02Mine(t, cmX)
	}
	oldTip := cmX.Tip()

	// chain B, built on a node that sees nothing else (the linear reference):
	// two empty blocks, a v1 block spending the genesis gift at height 3, then
	// enough blocks to outweigh chain A
	cmL, storeL := c02NewNode(t, n, genesis)
	var chainB []types.Block
	chainB = append(chainB, c02Mine(t, cmL), c02Mine(t, cmL))
	spendBlock := c02Mine(t, cmL, c02SpendGift(cmL.TipState(), sk, giftID))
	chainB = append(chainB, spendBlock)
	for cmL.Tip().Height < oldTip.Height+2 {
		chainB = append(chainB, c02Mine(t, cmL))
	}

	if err := cmX.AddBlocks(chainB); err != nil {
		t.Errorf("witness failed to reorg to the heavier fork: %v", err)
	}
	if cmX.Tip() != cmL.Tip() {
		t.Fatalf("witness is not on the best chain: tip %v, want %v (old tip %v)", cmX.Tip(), cmL.Tip(), oldTip)
	}
	if !reflect.DeepEqual(cmX.TipState(), cmL.TipState()) {
		t.Error("tip states differ")
	}
	for h := uint64(0); h <= cmL.Tip().Height; h++ {
		iL, okL := storeL.BestIndex(h)
		iX, okX := storeX.BestIndex(h)
		if iL != iX || okL != okX {
			t.Errorf("best index at height %d differs: %v vs %v", h, iL, iX)
		}
	}
	_, bsL, _ := storeL.Block(spendBlock.ID())
	_, bsX, _ := storeX.Block(spendBlock.ID())
	if !reflect.DeepEqual(bsL, bsX) {
		t.Errorf("stored supplement of the spending block differs:\n linear:  %+v\n witness: %+v", bsL, bsX)
	}
}

func TestGocvBoundedC02SupplementsAcrossRequireHeight(t *testing.T) {
	failures := 0
	for name, fn := range map[string]func(*testing.T){"revert-below-require-height": gocvC02SupplementAfterRevert, "reorg-across-require-height": gocvC02ReorgAcross} {
		if !t.Run(name, fn) {
			failures++
			fmt.Fprintf(os.Stdout, "GOCV-REPLAY-FAIL scenario=%s: supplements or tip differ from a node that only saw the final chain\n", name)
		}
	}
	fmt.Fprintf(os.Stdout, "GOCV-BOUNDED cases=2 failures=%d\n", failures)
}
