package coreutils

// Replay / bounded stand-in for C17 (written by /verif, injected with
// `go test -overlay`; never part of the repository). Every operation sequence up
// to GOCV_C17_LEN over a small alphabet is run on the real MemDB,
// CacheDB(MemDB), CacheDB(Bolt) and Bolt backends and compared with a plain map
// model after every step.

import (
	"bytes"
	"fmt"
	"os"
	"path/filepath"
	"sort"
	"strconv"
	"strings"
	"testing"

	"go.sia.tech/coreutils/chain"
)

type c17Op struct {
	kind    int // 0 create, 1 put, 2 delete, 3 get, 4 iter, 5 flush, 6 cancel
	b, k, v int
}

func (o c17Op) String() string {
	names := []string{"create", "put", "delete", "get", "iter", "flush", "cancel"}
	switch o.kind {
	case 0, 4:
		return fmt.Sprintf("%s(b%d)", names[o.kind], o.b)
	case 1:
		return fmt.Sprintf("put(b%d,k%d,v%d)", o.b, o.k, o.v)
	case 2, 3:
		return fmt.Sprintf("%s(b%d,k%d)", names[o.kind], o.b, o.k)
	}
	return names[o.kind]
}

type c17Model struct {
	view, committed map[string]map[string]string
}

func c17copy(m map[string]map[string]string) map[string]map[string]string {
	out := map[string]map[string]string{}
	for b, kv := range m {
		out[b] = map[string]string{}
		for k, v := range kv {
			out[b][k] = v
		}
	}
	return out
}

// apply returns the observable result of the operation on the model.
func (m *c17Model) apply(o c17Op) string {
	b, k, v := fmt.Sprintf("b%d", o.b), fmt.Sprintf("k%d", o.k), fmt.Sprintf("v%d", o.v)
	switch o.kind {
	case 0:
		if _, ok := m.view[b]; ok {
			return "err"
		}
		m.view[b] = map[string]string{}
		return "ok"
	case 1:
		if _, ok := m.view[b]; !ok {
			return "nobucket"
		}
		m.view[b][k] = v
		return "ok"
	case 2:
		if _, ok := m.view[b]; !ok {
			return "nobucket"
		}
		delete(m.view[b], k)
		return "ok"
	case 3:
		if _, ok := m.view[b]; !ok {
			return "nobucket"
		}
		return "=" + m.view[b][k]
	case 4:
		if _, ok := m.view[b]; !ok {
			return "nobucket"
		}
		var ps []string
		for k, v := range m.view[b] {
			ps = append(ps, k+"="+v)
		}
		sort.Strings(ps)
		return "[" + strings.Join(ps, ",") + "]"
	case 5:
		m.committed = c17copy(m.view)
		return "ok"
	default:
		m.view = c17copy(m.committed)
		return "ok"
	}
}

func c17real(db chain.DB, o c17Op) (res string) {
	defer func() {
		if r := recover(); r != nil {
			res = fmt.Sprintf("panic:%v", r)
		}
	}()
	b, k, v := []byte(fmt.Sprintf("b%d", o.b)), []byte(fmt.Sprintf("k%d", o.k)), []byte(fmt.Sprintf("v%d", o.v))
	switch o.kind {
	case 0:
		if _, err := db.CreateBucket(b); err != nil {
			return "err"
		}
		return "ok"
	case 5:
		if err := db.Flush(); err != nil {
			return "flusherr"
		}
		return "ok"
	case 6:
		db.Cancel()
		return "ok"
	}
	bk := db.Bucket(b)
	if bk == nil {
		return "nobucket"
	}
	switch o.kind {
	case 1:
		if err := bk.Put(k, v); err != nil {
			return "err"
		}
		return "ok"
	case 2:
		if err := bk.Delete(k); err != nil {
			return "err"
		}
		return "ok"
	case 3:
		return "=" + string(bytes.Clone(bk.Get(k)))
	default:
		var ps []string
		for k, v := range bk.Iter() {
			ps = append(ps, string(k)+"="+string(v))
		}
		sort.Strings(ps)
		return "[" + strings.Join(ps, ",") + "]"
	}
}

func c17ops(nb, nk, nv int) []c17Op {
	var ops []c17Op
	for b := 0; b < nb; b++ {
		ops = append(ops, c17Op{kind: 0, b: b}, c17Op{kind: 4, b: b})
		for k := 0; k < nk; k++ {
			ops = append(ops, c17Op{kind: 2, b: b, k: k}, c17Op{kind: 3, b: b, k: k})
			for v := 0; v < nv; v++ {
				ops = append(ops, c17Op{kind: 1, b: b, k: k, v: v})
			}
		}
	}
	return append(ops, c17Op{kind: 5}, c17Op{kind: 6})
}

func TestGocvReplayC17(t *testing.T) {
	maxLen := 4
	if s := os.Getenv("GOCV_C17_LEN"); s != "" {
		maxLen, _ = strconv.Atoi(s)
	}
	backends := strings.Split(os.Getenv("GOCV_C17_BACKENDS"), ",")
	if backends[0] == "" {
		backends = []string{"mem", "cache-mem", "bolt", "cache-bolt"}
	}
	ops := c17ops(1, 2, 2)
	dir := t.TempDir()
	nseq, nfail := 0, 0
	var firstFail string
	only := os.Getenv("GOCV_C17_ONLY") // e.g. "get" or "cache-mem/get": count only these mismatches
	cats := map[string]string{}
	names := []string{"create", "put", "delete", "get", "iter", "flush", "cancel"}
	seqNo := 0
	open := func(kind string) (chain.DB, func()) {
		switch kind {
		case "mem":
			return chain.NewMemDB(), func() {}
		case "cache-mem":
			return chain.NewCacheDB(chain.NewMemDB()), func() {}
		}
		seqNo++
		bdb, err := OpenBoltChainDB(filepath.Join(dir, fmt.Sprintf("db%d", seqNo)))
		if err != nil {
			t.Fatal(err)
		}
		if kind == "bolt" {
			return bdb, func() { bdb.Cancel(); bdb.db.Close() }
		}
		return chain.NewCacheDB(bdb), func() { bdb.Cancel(); bdb.db.Close() }
	}
	var rec func(seq []c17Op)
	run := func(seq []c17Op) {
		for _, kind := range backends {
			if (kind == "bolt" || kind == "cache-bolt") && len(seq) > 3 {
				continue // bolt files are slow to create; shorter sequences there
			}
			db, closeFn := open(kind)
			m := &c17Model{view: map[string]map[string]string{}, committed: map[string]map[string]string{}}
			for i, o := range seq {
				want, got := m.apply(o), c17real(db, o)
				if want != got {
					cat := kind + "/" + names[o.kind]
					msg := fmt.Sprintf("backend %s: after %v: %v returned %q, model says %q", kind, seq[:i], o, got, want)
					if _, ok := cats[cat]; !ok {
						cats[cat] = msg
					}
					if only == "" || strings.Contains(cat, only) {
						nfail++
						if firstFail == "" {
							firstFail = msg
						}
					}
					break
				}
			}
			closeFn()
		}
		nseq++
	}
	rec = func(seq []c17Op) {
		if len(seq) > 0 {
			run(seq)
		}
		if len(seq) == maxLen {
			return
		}
		for _, o := range ops {
			rec(append(seq[:len(seq):len(seq)], o))
		}
	}
	rec(nil)
	for c, m := range cats {
		t.Logf("GOCV-MISMATCH %s: %s", c, m)
	}
	t.Logf("GOCV-BOUNDED sequences=%d failures=%d maxlen=%d backends=%v", nseq, nfail, maxLen, backends)
	if nfail > 0 {
		t.Fatalf("GOCV-REPLAY-FAIL %s (%d failing sequences)", firstFail, nfail)
	}
}
