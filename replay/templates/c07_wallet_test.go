package wallet_test

// Replay / bounded stand-in for C07 (wallet funding), injected into package
// wallet_test with `go test -overlay`. Public API only; the helpers mineAndSync
// and assertBalance come from the repository's own wallet_test.go.
//
// Scenarios (each is a state the contracts of selectUTXOs / SpendableOutputs /
// Fund* quantify over, made concrete):
//   defrag-dup      non-default defrag options, request == everything the wallet
//                   has: the selection must not contain an output twice
//   v2-spendable    an output spent by a pooled v2 transaction, reservation gone
//                   (restart): SpendableOutputs / Balance.Spendable / selection agree
//   chain-restart   chain of two pooled v2 transactions, reservation gone: an
//                   unconfirmed output spent by the pool must not be selected
//   fail-reserves   a failing request adds nothing to the transaction and reserves nothing
//   conserve        inputs == amount + change for a sweep of amounts

import (
	"errors"
	"fmt"
	"os"
	"strings"
	"testing"

	"go.sia.tech/core/types"
	"go.sia.tech/coreutils/chain"
	"go.sia.tech/coreutils/testutil"
	"go.sia.tech/coreutils/wallet"
)

type gocvC07Env struct {
	cm     *chain.Manager
	ws     *testutil.EphemeralWalletStore
	pk     types.PrivateKey
	w      *wallet.SingleAddressWallet
	reward types.Currency
}

func gocvC07Setup(t *testing.T, rewards uint64, opts ...wallet.Option) *gocvC07Env {
	t.Helper()
	pk := types.GeneratePrivateKey()
	ws := testutil.NewEphemeralWalletStore()
	network, genesis := testutil.Network()
	network.HardforkV2.AllowHeight = 1
	cs, tipState, err := chain.NewDBStore(chain.NewMemDB(), network, genesis, nil)
	if err != nil {
		t.Fatal(err)
	}
	cm := chain.NewManager(cs, tipState)
	w, err := wallet.NewSingleAddressWallet(pk, cm, ws, &testutil.MockSyncer{}, opts...)
	if err != nil {
		t.Fatal(err)
	}
	t.Cleanup(func() { w.Close() })
	mineAndSync(t, cm, ws, w, w.Address(), rewards)
	mineAndSync(t, cm, ws, w, types.VoidAddress, cm.TipState().MaturityHeight())
	return &gocvC07Env{cm: cm, ws: ws, pk: pk, w: w, reward: tipState.BlockReward()}
}

func (e *gocvC07Env) restart(t *testing.T, opts ...wallet.Option) {
	t.Helper()
	e.w.Close()
	w, err := wallet.NewSingleAddressWallet(e.pk, e.cm, e.ws, &testutil.MockSyncer{}, opts...)
	if err != nil {
		t.Fatal(err)
	}
	t.Cleanup(func() { w.Close() })
	e.w = w
}

func gocvC07PoolSpent(cm *chain.Manager) map[types.SiacoinOutputID]bool {
	spent := make(map[types.SiacoinOutputID]bool)
	for _, txn := range cm.PoolTransactions() {
		for _, sci := range txn.SiacoinInputs {
			spent[sci.ParentID] = true
		}
	}
	for _, txn := range cm.V2PoolTransactions() {
		for _, sci := range txn.SiacoinInputs {
			spent[sci.Parent.ID] = true
		}
	}
	return spent
}

// checkV2 checks a funded v2 transaction against the property: distinct inputs,
// none spent by the pool, conservation.
func gocvC07CheckV2(cm *chain.Manager, txn types.V2Transaction, amount types.Currency, spent map[types.SiacoinOutputID]bool, addr types.Address, outputsBefore int) []string {
	var fails []string
	seen := make(map[types.SiacoinOutputID]bool)
	var in types.Currency
	for _, sci := range txn.SiacoinInputs {
		if seen[sci.Parent.ID] {
			fails = append(fails, fmt.Sprintf("input %v selected twice", sci.Parent.ID))
		}
		seen[sci.Parent.ID] = true
		if spent[sci.Parent.ID] {
			fails = append(fails, fmt.Sprintf("input %v is already spent by a pooled transaction", sci.Parent.ID))
		}
		if sci.Parent.SiacoinOutput.Address != addr {
			fails = append(fails, fmt.Sprintf("input %v is not owned by the wallet", sci.Parent.ID))
		}
		in = in.Add(sci.Parent.SiacoinOutput.Value)
	}
	var change types.Currency
	for _, sco := range txn.SiacoinOutputs[outputsBefore:] {
		if sco.Address != addr {
			fails = append(fails, "change output not addressed to the wallet")
		}
		change = change.Add(sco.Value)
	}
	if !in.Equals(amount.Add(change)) {
		fails = append(fails, fmt.Sprintf("inputs %v != amount %v + change %v", in, amount, change))
	}
	return fails
}

func gocvC07Scenarios(t *testing.T) (cases, failures int) {
	report := func(name string, fails []string) {
		cases++
		if len(fails) > 0 {
			failures++
			t.Errorf("GOCV-REPLAY-FAIL scenario=%s: %s", name, strings.Join(fails, "; "))
		}
	}

	// defrag-dup: every combination of small defrag options, request == total
	for _, thr := range []int{0, 1, 2} {
		for _, maxIn := range []int{2, 5, 30} {
			for _, maxDefrag := range []int{1, 3, 10} {
				for _, n := range []uint64{1, 2, 4} {
					e := gocvC07Setup(t, n, wallet.WithDefragThreshold(thr), wallet.WithMaxInputsForDefrag(maxIn), wallet.WithMaxDefragUTXOs(maxDefrag))
					bal, err := e.w.Balance()
					if err != nil {
						t.Fatal(err)
					}
					for _, amount := range []types.Currency{bal.Spendable, bal.Spendable.Sub(types.NewCurrency64(1)), e.reward, types.NewCurrency64(1)} {
						txn := types.V2Transaction{SiacoinOutputs: []types.SiacoinOutput{{Address: types.VoidAddress, Value: amount}}}
						_, _, err := e.w.FundV2Transaction(&txn, amount, false)
						name := fmt.Sprintf("defrag-dup thr=%d maxIn=%d maxDefrag=%d utxos=%d amount=%v", thr, maxIn, maxDefrag, n, amount)
						if err != nil {
							report(name, []string{"funding an amount within the spendable balance failed: " + err.Error()})
						} else {
							report(name, gocvC07CheckV2(e.cm, txn, amount, gocvC07PoolSpent(e.cm), e.w.Address(), 1))
						}
						e.w.ReleaseInputs(nil, []types.V2Transaction{txn})
					}
				}
			}
		}
	}

	// v2-spendable: pooled v2 spend, reservation gone
	{
		e := gocvC07Setup(t, 2)
		amount := e.reward.Div64(2)
		txn := types.V2Transaction{SiacoinOutputs: []types.SiacoinOutput{{Address: types.VoidAddress, Value: amount}}}
		basis, toSign, err := e.w.FundV2Transaction(&txn, amount, false)
		if err != nil {
			t.Fatal(err)
		}
		e.w.SignV2Inputs(&txn, toSign)
		if _, err := e.cm.AddV2PoolTransactions(basis, []types.V2Transaction{txn}); err != nil {
			t.Fatal(err)
		}
		e.restart(t)
		spent := gocvC07PoolSpent(e.cm)
		var fails []string
		outs, err := e.w.SpendableOutputs()
		if err != nil {
			t.Fatal(err)
		}
		var sum types.Currency
		for _, sce := range outs {
			if spent[sce.ID] {
				fails = append(fails, fmt.Sprintf("SpendableOutputs lists %v, which a pooled v2 transaction spends", sce.ID))
			}
			sum = sum.Add(sce.SiacoinOutput.Value)
		}
		bal, err := e.w.Balance()
		if err != nil {
			t.Fatal(err)
		}
		if !bal.Spendable.Equals(sum) {
			fails = append(fails, fmt.Sprintf("Balance.Spendable %v != sum of SpendableOutputs %v", bal.Spendable, sum))
		}
		// selection agrees: exactly Spendable can be funded without unconfirmed outputs, one more cannot
		t2 := types.V2Transaction{}
		if _, _, err := e.w.FundV2Transaction(&t2, bal.Spendable, false); err != nil {
			fails = append(fails, "funding Balance.Spendable failed: "+err.Error())
		}
		e.w.ReleaseInputs(nil, []types.V2Transaction{t2})
		t3 := types.V2Transaction{}
		if _, _, err := e.w.FundV2Transaction(&t3, bal.Spendable.Add(types.NewCurrency64(1)), false); !errors.Is(err, wallet.ErrNotEnoughFunds) {
			fails = append(fails, fmt.Sprintf("funding Balance.Spendable+1 without unconfirmed outputs: err=%v", err))
		}
		report("v2-spendable", fails)
	}

	// chain-restart and fail-reserves
	{
		e := gocvC07Setup(t, 1)
		quarter := e.reward.Div64(4)
		txnA := types.V2Transaction{SiacoinOutputs: []types.SiacoinOutput{{Address: types.VoidAddress, Value: quarter}}}
		basis, toSign, err := e.w.FundV2Transaction(&txnA, quarter, false)
		if err != nil {
			t.Fatal(err)
		}
		e.w.SignV2Inputs(&txnA, toSign)
		if _, err := e.cm.AddV2PoolTransactions(basis, []types.V2Transaction{txnA}); err != nil {
			t.Fatal(err)
		}
		txnB := types.V2Transaction{SiacoinOutputs: []types.SiacoinOutput{{Address: types.VoidAddress, Value: quarter}}}
		basis, toSign, err = e.w.FundV2Transaction(&txnB, quarter, true)
		if err != nil {
			t.Fatal(err)
		}
		e.w.SignV2Inputs(&txnB, toSign)
		basis, set, err := e.cm.V2TransactionSet(basis, txnB)
		if err != nil {
			t.Fatal(err)
		}
		if _, err := e.cm.AddV2PoolTransactions(basis, set); err != nil {
			t.Fatal(err)
		}
		e.restart(t)
		spent := gocvC07PoolSpent(e.cm)

		var fails []string
		bal, err := e.w.Balance()
		if err != nil {
			t.Fatal(err)
		}
		over := bal.Spendable.Add(bal.Unconfirmed).Add(types.NewCurrency64(1))
		tf := types.V2Transaction{SiacoinOutputs: []types.SiacoinOutput{{Address: types.VoidAddress, Value: over}}}
		before, _ := e.w.SpendableOutputs()
		if _, _, err := e.w.FundV2Transaction(&tf, over, true); !errors.Is(err, wallet.ErrNotEnoughFunds) {
			fails = append(fails, fmt.Sprintf("funding more than spendable+unconfirmed: err=%v, %d inputs", err, len(tf.SiacoinInputs)))
		} else if len(tf.SiacoinInputs) != 0 || len(tf.SiacoinOutputs) != 1 {
			fails = append(fails, "failed request modified the transaction")
		}
		after, _ := e.w.SpendableOutputs()
		if len(before) != len(after) {
			fails = append(fails, "failed request changed the spendable outputs (reserved something)")
		}
		report("fail-reserves", fails)

		txnC := types.V2Transaction{SiacoinOutputs: []types.SiacoinOutput{{Address: types.VoidAddress, Value: quarter}}}
		basis, toSign, err = e.w.FundV2Transaction(&txnC, quarter, true)
		if err != nil {
			report("chain-restart", []string{"funding from the unconfirmed balance failed: " + err.Error()})
		} else {
			fails = gocvC07CheckV2(e.cm, txnC, quarter, spent, e.w.Address(), 1)
			e.w.SignV2Inputs(&txnC, toSign)
			if basis, set, err := e.cm.V2TransactionSet(basis, txnC); err != nil {
				fails = append(fails, "transaction set: "+err.Error())
			} else if _, err := e.cm.AddV2PoolTransactions(basis, set); err != nil {
				fails = append(fails, "signed result rejected by the pool: "+err.Error())
			}
			report("chain-restart", fails)
		}
	}

	// conserve: v1 and v2, a sweep of amounts
	{
		e := gocvC07Setup(t, 3)
		bal, _ := e.w.Balance()
		for _, amount := range []types.Currency{types.NewCurrency64(1), e.reward.Sub(types.NewCurrency64(1)), e.reward, e.reward.Add(types.NewCurrency64(1)), bal.Spendable} {
			txn := types.Transaction{SiacoinOutputs: []types.SiacoinOutput{{Address: types.VoidAddress, Value: amount}}}
			toSign, err := e.w.FundTransaction(&txn, amount, false)
			var fails []string
			if err != nil {
				fails = append(fails, err.Error())
			} else {
				if len(toSign) != len(txn.SiacoinInputs) {
					fails = append(fails, "toSign does not cover the inputs")
				}
				seen := map[types.SiacoinOutputID]bool{}
				for _, sci := range txn.SiacoinInputs {
					if seen[sci.ParentID] {
						fails = append(fails, "duplicate input")
					}
					seen[sci.ParentID] = true
				}
			}
			report(fmt.Sprintf("conserve-v1 amount=%v", amount), fails)
			e.w.ReleaseInputs([]types.Transaction{txn}, nil)
		}
	}
	// redistribute / split: inputs distinct, unspent by the pool, owned; value conserved;
	// a second call does not reuse the inputs of the first (they are reserved)
	{
		e := gocvC07Setup(t, 4)
		spent := gocvC07PoolSpent(e.cm)
		used := map[types.SiacoinOutputID]bool{}
		checkSet := func(name string, txns []types.V2Transaction) {
			var fails []string
			for _, txn := range txns {
				var in, out types.Currency
				for _, sci := range txn.SiacoinInputs {
					if used[sci.Parent.ID] {
						fails = append(fails, fmt.Sprintf("input %v used by two outstanding transactions", sci.Parent.ID))
					}
					used[sci.Parent.ID] = true
					if spent[sci.Parent.ID] {
						fails = append(fails, fmt.Sprintf("input %v already spent by the pool", sci.Parent.ID))
					}
					if sci.Parent.SiacoinOutput.Address != e.w.Address() {
						fails = append(fails, "input not owned")
					}
					in = in.Add(sci.Parent.SiacoinOutput.Value)
				}
				for _, sco := range txn.SiacoinOutputs {
					out = out.Add(sco.Value)
				}
				if !in.Equals(out.Add(txn.MinerFee)) {
					fails = append(fails, fmt.Sprintf("inputs %v != outputs %v + fee %v", in, out, txn.MinerFee))
				}
			}
			report(name, fails)
		}
		for _, n := range []int{2, 5} {
			_, txns, toSign, err := e.w.Redistribute(n, e.reward.Div64(10), types.NewCurrency64(1))
			if err != nil {
				report(fmt.Sprintf("redistribute n=%d", n), []string{err.Error()})
				continue
			}
			if len(toSign) != len(txns) {
				report(fmt.Sprintf("redistribute n=%d", n), []string{"toSign does not match the transactions"})
				continue
			}
			checkSet(fmt.Sprintf("redistribute n=%d", n), txns)
		}
		// a failing redistribute reserves nothing
		before, _ := e.w.SpendableOutputs()
		if _, _, _, err := e.w.Redistribute(3, e.reward.Mul64(100), types.NewCurrency64(1)); err == nil {
			report("redistribute-fail", []string{"redistributing more than the balance succeeded"})
		} else {
			after, _ := e.w.SpendableOutputs()
			var fails []string
			if len(before) != len(after) {
				fails = append(fails, "failed redistribute changed the spendable outputs")
			}
			report("redistribute-fail", fails)
		}
	}
	{
		e := gocvC07Setup(t, 2, wallet.WithDefragThreshold(20))
		bal0, _ := e.w.Balance()
		txn, err := e.w.SplitUTXO(4, e.reward.Div64(100))
		var fails []string
		if err != nil {
			fails = append(fails, err.Error())
		} else if len(txn.SiacoinInputs) == 1 {
			var out types.Currency
			for _, sco := range txn.SiacoinOutputs {
				if sco.Address != e.w.Address() {
					fails = append(fails, "split output not addressed to the wallet")
				}
				out = out.Add(sco.Value)
			}
			if !txn.SiacoinInputs[0].Parent.SiacoinOutput.Value.Equals(out.Add(txn.MinerFee)) {
				fails = append(fails, "split does not conserve value")
			}
			// the split input is reserved: not spendable any more
			outs, _ := e.w.SpendableOutputs()
			for _, sce := range outs {
				if sce.ID == txn.SiacoinInputs[0].Parent.ID {
					fails = append(fails, "split input still listed as spendable")
				}
			}
			bal1, _ := e.w.Balance()
			if bal1.Spendable.Cmp(bal0.Spendable) >= 0 {
				fails = append(fails, "Balance.Spendable did not drop after the split was broadcast")
			}
		} else if len(txn.SiacoinInputs) != 0 {
			fails = append(fails, "split with more than one input")
		}
		report("split", fails)
	}
	return
}

func TestGocvReplayC07(t *testing.T) {
	cases, failures := gocvC07Scenarios(t)
	fmt.Fprintf(os.Stdout, "GOCV-BOUNDED cases=%d failures=%d\n", cases, failures)
}
