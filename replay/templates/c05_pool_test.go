package chain

// Replay / bounded stand-in for C05 (the pool as a minable continuation of the
// tip), injected into package chain with `go test -overlay`. Uses the helpers of
// the repository's own manager_test.go (TestnetZen, findBlockNonce).
//
// Scenarios:
//   ephemeral-survives   a pooled child of a pooled (unconfirmed) parent stays in the
//                        pool when an unrelated block is mined, and still can be rebased
//   prefix-valid         every prefix of the reported pool is valid against the tip, also
//                        after a block and after a reorg back
//   mined-accepted       a block assembled from the reported pool is accepted

import (
	"fmt"
	"os"
	"strings"
	"testing"

	"go.sia.tech/core/consensus"
	"go.sia.tech/core/types"
	"lukechampine.com/frand"
)

type gocvC05Env struct {
	cm   *Manager
	pk   types.PrivateKey
	addr types.Address
	gift []types.SiacoinElement
}

func gocvC05Setup(t *testing.T, gifts int) *gocvC05Env {
	n, genesisBlock := TestnetZen()
	n.InitialTarget = types.BlockID{0xFF}
	n.HardforkDevAddr.Height = 0
	n.HardforkTax.Height = 0
	n.HardforkStorageProof.Height = 0
	n.HardforkOak.Height = 0
	n.HardforkOak.FixHeight = 0
	n.HardforkASIC.Height = 0
	n.HardforkFoundation.Height = 0
	n.HardforkV2.AllowHeight = 0
	n.HardforkV2.RequireHeight = 1000

	pk := types.GeneratePrivateKey()
	addr := types.StandardUnlockHash(pk.PublicKey())
	var giftTxn types.Transaction
	for i := 0; i < gifts; i++ {
		giftTxn.SiacoinOutputs = append(giftTxn.SiacoinOutputs, types.SiacoinOutput{Address: addr, Value: types.Siacoins(uint32(100 + i))})
	}
	genesisBlock.Transactions = []types.Transaction{giftTxn}
	store, genesisState, err := NewDBStore(NewMemDB(), n, genesisBlock, nil)
	if err != nil {
		t.Fatal(err)
	}
	cm := NewManager(store, genesisState)
	e := &gocvC05Env{cm: cm, pk: pk, addr: addr}
	e.mine(t, nil)
	// fetch the gift elements with proofs at the tip
	_, cau, err := cm.UpdatesSince(types.ChainIndex{}, 100)
	if err != nil {
		t.Fatal(err)
	}
	byID := map[types.SiacoinOutputID]types.SiacoinElement{}
	for _, u := range cau {
		for id, sce := range byID {
			u.UpdateElementProof(&sce.StateElement)
			byID[id] = sce
		}
		for _, d := range u.SiacoinElementDiffs() {
			if d.Created && d.SiacoinElement.SiacoinOutput.Address == addr {
				byID[d.SiacoinElement.ID] = d.SiacoinElement.Copy()
			}
		}
	}
	for i := 0; i < gifts; i++ {
		e.gift = append(e.gift, byID[giftTxn.SiacoinOutputID(i)])
	}
	return e
}

func (e *gocvC05Env) mine(t *testing.T, v2txns []types.V2Transaction) {
	cs := e.cm.TipState()
	b := types.Block{
		ParentID:     cs.Index.ID,
		Timestamp:    types.CurrentTimestamp(),
		MinerPayouts: []types.SiacoinOutput{{Value: cs.BlockReward(), Address: frand.Entropy256()}},
	}
	for _, txn := range v2txns {
		b.MinerPayouts[0].Value = b.MinerPayouts[0].Value.Add(txn.MinerFee)
	}
	b.V2 = &types.V2BlockData{Height: cs.Index.Height + 1, Transactions: v2txns}
	b.V2.Commitment = cs.Commitment(b.MinerPayouts[0].Address, b.Transactions, b.V2Transactions())
	findBlockNonce(cs, &b)
	if err := e.cm.AddBlocks([]types.Block{b}); err != nil {
		t.Fatal(err)
	}
}

func (e *gocvC05Env) policy() types.SatisfiedPolicy {
	return types.SatisfiedPolicy{Policy: types.SpendPolicy{Type: types.PolicyTypeUnlockConditions(types.StandardUnlockConditions(e.pk.PublicKey()))}}
}

// spend builds a signed v2 transaction spending parents into `outs` equal outputs to the same address.
func (e *gocvC05Env) spend(parents []types.SiacoinElement, outs int) types.V2Transaction {
	var sum types.Currency
	var txn types.V2Transaction
	for _, p := range parents {
		sum = sum.Add(p.SiacoinOutput.Value)
		txn.SiacoinInputs = append(txn.SiacoinInputs, types.V2SiacoinInput{Parent: p.Copy(), SatisfiedPolicy: e.policy()})
	}
	per := sum.Div64(uint64(outs))
	for i := 0; i < outs; i++ {
		txn.SiacoinOutputs = append(txn.SiacoinOutputs, types.SiacoinOutput{Address: e.addr, Value: per})
	}
	txn.MinerFee = sum.Sub(per.Mul64(uint64(outs)))
	sig := e.pk.SignHash(e.cm.TipState().InputSigHash(txn))
	for i := range txn.SiacoinInputs {
		txn.SiacoinInputs[i].SatisfiedPolicy.Signatures = []types.Signature{sig}
	}
	return txn
}

func gocvC05Scenarios(t *testing.T) (cases, failures int) {
	report := func(name string, fails []string) {
		cases++
		if len(fails) > 0 {
			failures++
			t.Errorf("GOCV-REPLAY-FAIL scenario=%s: %s", name, strings.Join(fails, "; "))
		}
	}
	guard := func(name string, f func() []string) {
		defer func() {
			if r := recover(); r != nil {
				report(name, []string{fmt.Sprintf("panic: %v", r)})
			}
		}()
		report(name, f())
	}
	prefixValid := func(e *gocvC05Env) []string {
		var fails []string
		ms := consensus.NewMidState(e.cm.TipState())
		for i, txn := range e.cm.V2PoolTransactions() {
			if err := consensus.ValidateV2Transaction(ms, txn); err != nil {
				fails = append(fails, fmt.Sprintf("pool transaction %d (%v) is not valid after its predecessors: %v", i, txn.ID(), err))
				break
			}
			ms.ApplyV2Transaction(txn)
		}
		return fails
	}

	guard("ephemeral-survives", func() []string {
		e := gocvC05Setup(t, 2)
		B := e.spend([]types.SiacoinElement{e.gift[0]}, 2)
		A := e.spend([]types.SiacoinElement{B.EphemeralSiacoinOutput(0)}, 1)
		basis := e.cm.Tip()
		if _, err := e.cm.AddV2PoolTransactions(basis, []types.V2Transaction{B, A}); err != nil {
			t.Fatal(err)
		}
		var fails []string
		// an unrelated block (spends the other gift) is mined; B and A stay unconfirmed
		U := e.spend([]types.SiacoinElement{e.gift[1]}, 1)
		e.mine(t, []types.V2Transaction{U})
		if _, ok := e.cm.V2PoolTransaction(B.ID()); !ok {
			fails = append(fails, "the unconfirmed parent left the pool although nothing conflicts with it")
		}
		if _, ok := e.cm.V2PoolTransaction(A.ID()); !ok {
			fails = append(fails, "the child of an unconfirmed parent was dropped from the pool by an unrelated block")
		}
		fails = append(fails, prefixValid(e)...)
		// the same set, rebased by its owner from the old basis to the new tip
		if out, err := e.cm.UpdateV2TransactionSet([]types.V2Transaction{B.DeepCopy(), A.DeepCopy()}, basis, e.cm.Tip()); err != nil {
			fails = append(fails, "rebasing a set with an unconfirmed parent across an unrelated block failed: "+err.Error())
		} else if len(out) != 2 {
			fails = append(fails, fmt.Sprintf("rebase returned %d of 2 transactions", len(out)))
		} else if _, err := e.cm.AddV2PoolTransactions(e.cm.Tip(), out); err != nil {
			fails = append(fails, "rebased set rejected at the target: "+err.Error())
		}
		return fails
	})

	guard("prefix-valid", func() []string {
		e := gocvC05Setup(t, 3)
		B := e.spend([]types.SiacoinElement{e.gift[0]}, 2)
		A := e.spend([]types.SiacoinElement{B.EphemeralSiacoinOutput(0)}, 1)
		C := e.spend([]types.SiacoinElement{e.gift[1]}, 1)
		for _, set := range [][]types.V2Transaction{{B, A}, {C}} {
			if _, err := e.cm.AddV2PoolTransactions(e.cm.Tip(), set); err != nil {
				t.Fatal(err)
			}
		}
		fails := prefixValid(e)
		e.mine(t, []types.V2Transaction{B})
		fails = append(fails, prefixValid(e)...)
		if err := e.cm.ForceRevertTip(); err != nil {
			t.Fatal(err)
		}
		// ForceRevertTip is the repository's test helper around revertTip; a real reorg goes
		// through reorgTo, which also invalidates the pool's cached validation state
		e.cm.mu.Lock()
		e.cm.txpool.ms = nil
		e.cm.mu.Unlock()
		fails = append(fails, prefixValid(e)...)
		return fails
	})

	guard("mined-accepted", func() []string {
		e := gocvC05Setup(t, 3)
		B := e.spend([]types.SiacoinElement{e.gift[0]}, 2)
		A := e.spend([]types.SiacoinElement{B.EphemeralSiacoinOutput(0)}, 1)
		C := e.spend([]types.SiacoinElement{e.gift[1]}, 1)
		for _, set := range [][]types.V2Transaction{{B, A}, {C}} {
			if _, err := e.cm.AddV2PoolTransactions(e.cm.Tip(), set); err != nil {
				t.Fatal(err)
			}
		}
		cs := e.cm.TipState()
		pool := e.cm.V2PoolTransactions()
		b := types.Block{ParentID: cs.Index.ID, Timestamp: types.CurrentTimestamp(), MinerPayouts: []types.SiacoinOutput{{Value: cs.BlockReward(), Address: frand.Entropy256()}}}
		for _, txn := range pool {
			b.MinerPayouts[0].Value = b.MinerPayouts[0].Value.Add(txn.MinerFee)
		}
		b.V2 = &types.V2BlockData{Height: cs.Index.Height + 1, Transactions: pool}
		b.V2.Commitment = cs.Commitment(b.MinerPayouts[0].Address, b.Transactions, b.V2Transactions())
		findBlockNonce(cs, &b)
		if err := e.cm.AddBlocks([]types.Block{b}); err != nil {
			return []string{"a block assembled from the reported pool was rejected: " + err.Error()}
		}
		if n := len(e.cm.V2PoolTransactions()); n != 0 {
			return []string{fmt.Sprintf("%d confirmed transactions are still reported by the pool", n)}
		}
		return nil
	})
	return
}

func TestGocvReplayC05(t *testing.T) {
	cases, failures := gocvC05Scenarios(t)
	fmt.Fprintf(os.Stdout, "GOCV-BOUNDED cases=%d failures=%d\n", cases, failures)
}
