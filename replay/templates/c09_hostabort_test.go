package rhp_test

// Replay for C08/C09 (written by /verif, injected with `go test -overlay`):
// a renter abandons a multi-round RPC after the host's first response; the
// contractor's roots must still hash to the committed revision.

import (
	"bytes"
	"context"
	"fmt"
	"strings"
	"testing"
	"time"

	proto4 "go.sia.tech/core/rhp/v4"
	"go.sia.tech/core/types"
	rhp4 "go.sia.tech/coreutils/rhp/v4"
	"go.sia.tech/coreutils/testutil"
	"go.uber.org/zap"
	"lukechampine.com/frand"
)

func TestGocvReplayC09(t *testing.T) {
	n, genesis := testutil.V2Network()
	hostKey, renterKey := types.GeneratePrivateKey(), types.GeneratePrivateKey()
	cm, w := startTestNode(t, n, genesis)
	mineAndSync(t, cm, w.Address(), int(n.MaturityDelay+20), w)
	sr := testutil.NewEphemeralSettingsReporter()
	sr.Update(proto4.HostSettings{
		Release: "test", AcceptingContracts: true, WalletAddress: w.Address(),
		MaxCollateral: types.Siacoins(10000), MaxContractDuration: 1000,
		RemainingStorage: 100 * proto4.SectorSize, TotalStorage: 100 * proto4.SectorSize,
		Prices: proto4.HostPrices{ContractPrice: types.Siacoins(1).Div64(5), StoragePrice: types.NewCurrency64(100), IngressPrice: types.NewCurrency64(100), EgressPrice: types.NewCurrency64(100), Collateral: types.NewCurrency64(200)},
	})
	ss := testutil.NewEphemeralSectorStore()
	c := testutil.NewEphemeralContractor(cm)
	transport := testRenterHostPairSiaMux(t, hostKey, cm, w, c, sr, ss, zap.NewNop())
	ctx := context.Background()
	settings, err := rhp4.RPCSettings(ctx, transport)
	if err != nil {
		t.Fatal(err)
	}
	fs := &fundAndSign{w, renterKey}
	formResult, err := rhp4.RPCFormContract(ctx, transport, cm, fs, cm.TipState(), settings.Prices, hostKey.PublicKey(), settings.WalletAddress, proto4.RPCFormContractParams{
		RenterPublicKey: renterKey.PublicKey(), RenterAddress: w.Address(), Allowance: types.Siacoins(100), Collateral: types.Siacoins(200), ProofHeight: cm.Tip().Height + 50,
	})
	if err != nil {
		t.Fatal(err)
	}
	revision := formResult.Contract
	mineAndSync(t, cm, types.VoidAddress, 1, w, c)
	account := proto4.Account(renterKey.PublicKey())
	fundResult, err := rhp4.RPCFundAccounts(ctx, transport, cm.TipState(), renterKey, revision, []proto4.AccountDeposit{{Account: account, Amount: types.Siacoins(25)}})
	if err != nil {
		t.Fatal(err)
	}
	revision.Revision = fundResult.Revision
	token := proto4.NewAccountToken(renterKey, hostKey.PublicKey())
	var roots []types.Hash256
	for range 5 {
		var sector [proto4.SectorSize]byte
		frand.Read(sector[:256])
		wr, err := rhp4.RPCWriteSector(ctx, transport, settings.Prices, token, bytes.NewReader(sector[:]), proto4.SectorSize)
		if err != nil {
			t.Fatal(err)
		}
		roots = append(roots, wr.Root)
	}
	ar, err := rhp4.RPCAppendSectors(ctx, transport, renterKey, cm.TipState(), settings.Prices, revision, roots)
	if err != nil {
		t.Fatal(err)
	}
	revision.Revision = ar.Revision

	var fails []string
	check := func(when string) {
		rs, unlock, err := c.LockV2Contract(revision.ID)
		if err != nil {
			fails = append(fails, fmt.Sprintf("%s: cannot lock the contract: %v", when, err))
			return
		}
		defer unlock()
		if got := proto4.MetaRoot(rs.Roots); got != rs.Revision.FileMerkleRoot {
			fails = append(fails, fmt.Sprintf("%s: the host's %d stored roots hash to %v but its committed revision (number %d) has Merkle root %v", when, len(rs.Roots), got, rs.Revision.RevisionNumber, rs.Revision.FileMerkleRoot))
		}
		if uint64(len(rs.Roots))*proto4.SectorSize != rs.Revision.Filesize {
			fails = append(fails, fmt.Sprintf("%s: %d stored roots but file size %d", when, len(rs.Roots), rs.Revision.Filesize))
		}
	}
	check("after append")

	// abandoned free-sectors RPC: send the request, read the proof, never send the signature
	for _, indices := range [][]uint64{{0}, {1, 0}, {3}} {
		req := proto4.RPCFreeSectorsRequest{ContractID: revision.ID, Prices: settings.Prices, Indices: indices}
		req.ChallengeSignature = renterKey.SignHash(req.ChallengeSigHash(revision.Revision.RevisionNumber + 1))
		s, err := transport.DialStream(ctx)
		if err != nil {
			t.Fatal(err)
		}
		if err := proto4.WriteRequest(s, proto4.RPCFreeSectorsID, &req); err != nil {
			t.Fatal(err)
		}
		var resp proto4.RPCFreeSectorsResponse
		if err := proto4.ReadResponse(s, &resp); err != nil {
			t.Fatal(err)
		}
		s.Close()
		// give the handler time to finish and release the lock
		for i := 0; i < 200; i++ {
			if _, unlock, err := c.LockV2Contract(revision.ID); err == nil {
				unlock()
				break
			}
			time.Sleep(10 * time.Millisecond)
		}
		check(fmt.Sprintf("after an abandoned free of indices %v", indices))
	}
	// the honest RPCs still work afterwards
	if _, err := rhp4.RPCSectorRoots(ctx, transport, cm.TipState(), settings.Prices, renterKey, revision, 0, uint64(len(roots))); err != nil {
		fails = append(fails, fmt.Sprintf("listing the sector roots after the abandoned RPCs failed: %v", err))
	}
	t.Logf("GOCV-BOUNDED cases=%d failures=%d", 4, len(fails))
	if len(fails) > 0 {
		t.Fatalf("GOCV-REPLAY-FAIL %s", strings.Join(fails, "\n  "))
	}
}
