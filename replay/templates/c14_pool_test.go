package chain_test

// Replay for C14 (written by /verif, injected with `go test -overlay`).
// Drives the real Manager through pool lookups of every id kind and through
// submissions whose k-th transaction conflicts with the pool.

import (
	"fmt"
	"os"
	"reflect"
	"strings"
	"testing"
	"time"

	"go.sia.tech/core/types"
	"go.sia.tech/coreutils"
	"go.sia.tech/coreutils/chain"
	"go.sia.tech/coreutils/testutil"
	"lukechampine.com/frand"
)

func gocvMine(t *testing.T, cm *chain.Manager, addr types.Address, n int) {
	t.Helper()
	for i := 0; i < n; i++ {
		b, ok := coreutils.MineBlock(cm, addr, 5*time.Second)
		if !ok {
			t.Fatal("failed to mine block")
		} else if err := cm.AddBlocks([]types.Block{b}); err != nil {
			t.Fatal(err)
		}
	}
}

func gocvLookup(cm *chain.Manager, id types.TransactionID, v2 bool) (res string) {
	defer func() {
		if r := recover(); r != nil {
			res = fmt.Sprintf("panic: %v", r)
		}
	}()
	if v2 {
		txn, ok := cm.V2PoolTransaction(id)
		if !ok {
			return "absent"
		}
		return "found " + txn.ID().String()
	}
	txn, ok := cm.PoolTransaction(id)
	if !ok {
		return "absent"
	}
	return "found " + txn.ID().String()
}

func TestGocvReplayC14(t *testing.T) {
	only := os.Getenv("GOCV_C14_ONLY") // "lookup" | "atomic" | ""
	var fails []string
	cases := 0
	n, genesisBlock := testutil.V2Network()
	policy := types.AnyoneCanSpend()
	addr := policy.Address()
	store, tipState, err := chain.NewDBStore(chain.NewMemDB(), n, genesisBlock, nil)
	if err != nil {
		t.Fatal(err)
	}
	cm := chain.NewManager(store, tipState)
	ms := newMemState()
	gocvMine(t, cm, addr, int(n.MaturityDelay)+3)
	ms.Sync(t, cm)

	if only == "" || only == "lookup" {
		// pools with 0..2 v2 transactions; look up v2 ids, unknown ids through both lookups
		var ids []types.TransactionID
		for k := 0; k < 3; k++ {
			for _, id := range append(ids, types.TransactionID(frand.Entropy256())) {
				known := false
				for _, x := range ids {
					known = known || x == id
				}
				cases += 2
				// v1 lookup of any id that is not a v1 transaction must report absence
				if got := gocvLookup(cm, id, false); got != "absent" {
					fails = append(fails, fmt.Sprintf("PoolTransaction(%v) with %d v2 transactions pooled (id is a pooled v2 id: %v) returned %q, want absent", id, len(ids), known, got))
				}
				want := "absent"
				if known {
					want = "found " + id.String()
				}
				if got := gocvLookup(cm, id, true); got != want {
					fails = append(fails, fmt.Sprintf("V2PoolTransaction(%v) returned %q, want %q", id, got, want))
				}
			}
			txn := types.V2Transaction{ArbitraryData: frand.Bytes(16)}
			if _, err := cm.AddV2PoolTransactions(cm.Tip(), []types.V2Transaction{txn}); err != nil {
				t.Fatal(err)
			}
			ids = append(ids, txn.ID())
		}
	}

	if only == "" || only == "atomic" {
		// a set whose k-th transaction double-spends an output already spent in the pool
		se := ms.SpendableElement(t)
		spend := func(fee types.Currency, data []byte) types.V2Transaction {
			return types.V2Transaction{
				SiacoinInputs:  []types.V2SiacoinInput{{Parent: se.Copy(), SatisfiedPolicy: types.SatisfiedPolicy{Policy: policy}}},
				SiacoinOutputs: []types.SiacoinOutput{{Address: addr, Value: se.SiacoinOutput.Value.Sub(fee)}},
				MinerFee:       fee,
				ArbitraryData:  data,
			}
		}
		first := spend(types.Siacoins(1), []byte("first"))
		if _, err := cm.AddV2PoolTransactions(cm.Tip(), []types.V2Transaction{first}); err != nil {
			t.Fatal(err)
		}
		for k := 0; k < 3; k++ {
			before := cm.V2PoolTransactions()
			var set []types.V2Transaction
			for j := 0; j < k; j++ {
				set = append(set, types.V2Transaction{ArbitraryData: frand.Bytes(16)})
			}
			set = append(set, spend(types.Siacoins(2), []byte("conflict")))
			orig := make([]types.V2Transaction, len(set))
			for i := range set {
				orig[i] = set[i].DeepCopy()
			}
			known, err := cm.AddV2PoolTransactions(cm.Tip(), set)
			after := cm.V2PoolTransactions()
			cases++
			if err == nil || known {
				fails = append(fails, fmt.Sprintf("conflicting set (k=%d) was accepted: known=%v err=%v", k, known, err))
			} else if len(before) != len(after) {
				fails = append(fails, fmt.Sprintf("rejected set whose transaction #%d conflicts with the pool changed the pool from %d to %d transactions (err: %v)", k, len(before), len(after), err))
			}
			if !reflect.DeepEqual(orig, set) {
				fails = append(fails, fmt.Sprintf("AddV2PoolTransactions modified the caller's transactions (k=%d)", k))
			}
			for _, txn := range set[:k] {
				if _, ok := cm.V2PoolTransaction(txn.ID()); ok {
					fails = append(fails, fmt.Sprintf("transaction #%d of a rejected set is retrievable from the pool", k))
					break
				}
			}
		}
		// known iff all already pooled
		pooled := cm.V2PoolTransactions()
		if known, err := cm.AddV2PoolTransactions(cm.Tip(), pooled); err != nil || !known {
			fails = append(fails, fmt.Sprintf("resubmitting the whole pool: known=%v err=%v", known, err))
		}
		cases++
		// mutating returned transactions must not affect the pool
		got := cm.V2PoolTransactions()
		if len(got) > 0 {
			id := got[0].ID()
			if len(got[0].ArbitraryData) > 0 {
				got[0].ArbitraryData[0] ^= 0xFF
			}
			if len(got[0].SiacoinInputs) > 0 && len(got[0].SiacoinInputs[0].Parent.StateElement.MerkleProof) > 0 {
				got[0].SiacoinInputs[0].Parent.StateElement.MerkleProof[0][0] ^= 0xFF
			}
			if again := cm.V2PoolTransactions(); again[0].ID() != id {
				fails = append(fails, "mutating a transaction returned by V2PoolTransactions changed the pool")
			}
			cases++
		}
	}
	t.Logf("GOCV-BOUNDED cases=%d failures=%d", cases, len(fails))
	if len(fails) > 0 {
		t.Fatalf("GOCV-REPLAY-FAIL %s", strings.Join(fails, "\n  "))
	}
}
