package chain_test

// Bounded stand-in for "ephemeral inputs that became confirmed are included" (C13), adapted from
// the demonstration of seed C13-f: a [parent, child] set whose parent is confirmed in a LATER block
// of the rebase path (an empty block first) is rebased in one call and step by step; both must give
// a child whose input carries the confirmed element, valid at the target.

// Demonstration for C13 ("ephemeral inputs that became confirmed included").
//
// Copy this file into the chain/ directory of the module (package chain_test,
// next to pool_test.go) and run:
//
//	go test -vet=off -count=1 -run gocvC13EphemeralConfirmedLaterBody ./chain/
//
// A set [parent, child] is built at a basis B; child spends the ephemeral
// output of parent. The chain then grows by an empty block, a block that
// confirms parent, and another empty block. Rebasing the set from B to the tip
// must drop parent and give child's input the leaf index and Merkle proof the
// ledger has for the (now confirmed) output at the tip.

import (
	"os"
	"fmt"
	"reflect"
	"testing"

	"go.sia.tech/core/consensus"
	"go.sia.tech/core/types"
	"go.sia.tech/coreutils/chain"
	"go.sia.tech/coreutils/testutil"
)

func gocvC13EphemeralConfirmedLaterBody(t *testing.T) {
	n, genesisBlock := testutil.V2Network()

	sk := types.GeneratePrivateKey()
	sp := types.PolicyPublicKey(sk.PublicKey())
	addr := sp.Address()

	store, genesisState, err := chain.NewDBStore(chain.NewMemDB(), n, genesisBlock, nil)
	if err != nil {
		t.Fatal(err)
	}
	cm := chain.NewManager(store, genesisState)
	es := testutil.NewElementStateStore(t, cm)

	testutil.MineBlocks(t, cm, addr, 5+int(n.MaturityDelay))
	es.Wait(t)

	cs := cm.TipState()
	basis, sces := es.SiacoinElements()
	if basis != cm.Tip() {
		t.Fatal("element store not at tip")
	}

	var utxo types.SiacoinElement
	for _, sce := range sces {
		if sce.SiacoinOutput.Address == addr && sce.MaturityHeight <= cs.Index.Height {
			utxo = sce
			break
		}
	}
	if utxo.ID == (types.SiacoinOutputID{}) {
		t.Fatal("no spendable element found")
	}

	fee := types.Siacoins(1)
	parentTxn := types.V2Transaction{
		SiacoinInputs: []types.V2SiacoinInput{{
			Parent:          utxo,
			SatisfiedPolicy: types.SatisfiedPolicy{Policy: sp},
		}},
		MinerFee: fee,
		SiacoinOutputs: []types.SiacoinOutput{{
			Address: addr,
			Value:   utxo.SiacoinOutput.Value.Sub(fee),
		}},
	}
	parentTxn.SiacoinInputs[0].SatisfiedPolicy.Signatures = []types.Signature{sk.SignHash(cs.InputSigHash(parentTxn))}

	ephemeral := parentTxn.EphemeralSiacoinOutput(0)
	childTxn := types.V2Transaction{
		SiacoinInputs: []types.V2SiacoinInput{{
			Parent:          ephemeral,
			SatisfiedPolicy: types.SatisfiedPolicy{Policy: sp},
		}},
		MinerFee: fee,
		SiacoinOutputs: []types.SiacoinOutput{{
			Address: types.VoidAddress,
			Value:   ephemeral.SiacoinOutput.Value.Sub(fee),
		}},
	}
	childTxn.SiacoinInputs[0].SatisfiedPolicy.Signatures = []types.Signature{sk.SignHash(cs.InputSigHash(childTxn))}

	newSet := func() []types.V2Transaction {
		return []types.V2Transaction{parentTxn.DeepCopy(), childTxn.DeepCopy()}
	}

	// sanity: the set is valid at its basis
	ms := consensus.NewMidState(cs)
	for _, txn := range newSet() {
		if err := consensus.ValidateV2Transaction(ms, txn); err != nil {
			t.Fatal("set should be valid at basis:", err)
		}
		ms.ApplyV2Transaction(txn)
	}

	// block 1 on the path: empty (the pool is empty)
	testutil.MineBlocks(t, cm, types.VoidAddress, 1)
	mid := cm.Tip()

	// block 2 on the path: confirms the parent only
	if _, err := cm.AddV2PoolTransactions(basis, []types.V2Transaction{parentTxn.DeepCopy()}); err != nil {
		t.Fatal(err)
	}
	testutil.MineBlocks(t, cm, types.VoidAddress, 1)
	if len(cm.V2PoolTransactions()) != 0 {
		t.Fatal("parent should have been mined")
	}
	// block 3 on the path: empty
	testutil.MineBlocks(t, cm, types.VoidAddress, 1)
	es.Wait(t)
	tip := cm.Tip()

	// the ledger's view of the formerly ephemeral output at the tip
	ledgerTip, ledgerElem, ok := es.SiacoinElement(ephemeral.ID)
	if !ok || ledgerTip != tip {
		t.Fatal("ledger does not know the confirmed output", ok, ledgerTip, tip)
	}

	check := func(name string, got []types.V2Transaction) {
		t.Helper()
		if len(got) != 1 || got[0].ID() != childTxn.ID() {
			t.Fatalf("%s: expected exactly the child transaction, got %d transactions", name, len(got))
		}
		se := got[0].SiacoinInputs[0].Parent.StateElement
		if se.LeafIndex == types.UnassignedLeafIndex {
			t.Fatalf("%s: child's input is still ephemeral although its parent was confirmed on the path", name)
		}
		if se.LeafIndex != ledgerElem.StateElement.LeafIndex || !reflect.DeepEqual(se.MerkleProof, ledgerElem.StateElement.MerkleProof) {
			t.Fatalf("%s: child's input proof differs from the ledger's at the tip:\n got  %v %v\n want %v %v", name,
				se.LeafIndex, se.MerkleProof, ledgerElem.StateElement.LeafIndex, ledgerElem.StateElement.MerkleProof)
		}
		if err := consensus.ValidateV2Transaction(consensus.NewMidState(cm.TipState()), got[0]); err != nil {
			t.Fatalf("%s: rebased child is not valid at the tip: %v", name, err)
		}
	}

	// reference: rebase block by block (basis -> mid -> tip)
	step, err := cm.UpdateV2TransactionSet(newSet(), basis, mid)
	if err != nil {
		t.Fatal(err)
	} else if len(step) != 2 {
		t.Fatalf("expected both transactions after the empty block, got %d", len(step))
	}
	step, err = cm.UpdateV2TransactionSet(step, mid, tip)
	if err != nil {
		t.Fatal(err)
	}
	check("stepwise", step)

	// rebase in one go (basis -> tip)
	direct, err := cm.UpdateV2TransactionSet(newSet(), basis, tip)
	if err != nil {
		t.Fatal(err)
	}
	check("direct", direct)

	// the same set must also be accepted by the pool with the old basis: the
	// confirmed parent is dropped and the child is pooled
	if _, err := cm.AddV2PoolTransactions(basis, newSet()); err != nil {
		t.Fatal("pool rejected the set:", err)
	} else if _, ok := cm.V2PoolTransaction(childTxn.ID()); !ok {
		t.Fatal("child should be in the pool")
	}
}

func TestGocvBoundedC13EphemeralConfirmedLater(t *testing.T) {
	failures := 0
	if !t.Run("ephemeral-parent-confirmed-in-a-later-block", gocvC13EphemeralConfirmedLaterBody) {
		failures++
		fmt.Fprintf(os.Stdout, "GOCV-REPLAY-FAIL scenario=ephemeral-parent-confirmed-in-a-later-block\n")
	}
	fmt.Fprintf(os.Stdout, "GOCV-BOUNDED cases=1 failures=%d\n", failures)
}
