package chain

// Bounded stand-in for the retention clause of C05 ("an accepted transaction stays retrievable
// until it is confirmed, conflicts with the chain, or is evicted for low fees when the pool is
// full"), adapted from the demonstration of seed C05-e: a transaction remembered from a reverted
// block must not push an accepted, still valid pool transaction out when the pool is revalidated.

// Demonstration for C05 (retention clause): copy this file into the chain/
// directory of the module (package clause "chain", it reuses findBlockNonce
// from chain/manager_test.go) and run
//
//	go test -vet=off -count=1 -run gocvC05RetentionBody ./chain/
//
// History:
//
//	g - B1(P) - B2(Q)            Q spends P's output and pays a fee
//	g - B1' - B2' - B3'          heavier empty fork: B2 is the reverted tip, so
//	                             Q is remembered in lastReverted; it is invalid
//	                             on the fork (P's output does not exist there)
//	submit [P, T]                T is another spend of P's output; the set is
//	                             accepted into the pool
//	B4'(P)                       a block confirming only P
//
// After B4', T has not been confirmed, its input (P's output) exists on the
// chain and is unspent, and the pool is nowhere near full: T must still be
// retrievable, and a block mined from the pool must confirm it.

import (
	"os"
	"fmt"
	"testing"

	"go.sia.tech/core/consensus"
	"go.sia.tech/core/types"
	"lukechampine.com/frand"
)

func gocvC05RetentionBody(t *testing.T) {
	n, genesisBlock := TestnetZen()
	n.InitialTarget = types.BlockID{0xFF}

	giftPrivateKey := types.GeneratePrivateKey()
	giftPublicKey := giftPrivateKey.PublicKey()
	giftAddress := types.StandardUnlockHash(giftPublicKey)
	giftAmountSC := types.Siacoins(100)
	giftTxn := types.Transaction{
		SiacoinOutputs: []types.SiacoinOutput{
			{Address: giftAddress, Value: giftAmountSC},
		},
	}
	genesisBlock.Transactions = []types.Transaction{giftTxn}

	store, tipState, err := NewDBStore(NewMemDB(), n, genesisBlock, nil)
	if err != nil {
		t.Fatal(err)
	}
	cm := NewManager(store, tipState)
	genesisState := cm.TipState()

	signTxn := func(txn *types.Transaction) {
		for _, sci := range txn.SiacoinInputs {
			sig := giftPrivateKey.SignHash(cm.TipState().WholeSigHash(*txn, types.Hash256(sci.ParentID), 0, 0, nil))
			txn.Signatures = append(txn.Signatures, types.TransactionSignature{
				ParentID:       types.Hash256(sci.ParentID),
				CoveredFields:  types.CoveredFields{WholeTransaction: true},
				PublicKeyIndex: 0,
				Signature:      sig[:],
			})
		}
	}
	// mineBlock mines a block holding txns on top of the current tip
	mineBlock := func(txns ...types.Transaction) {
		t.Helper()
		cs := cm.TipState()
		b := types.Block{
			ParentID:     cs.Index.ID,
			Timestamp:    types.CurrentTimestamp(),
			MinerPayouts: []types.SiacoinOutput{{Value: cs.BlockReward(), Address: types.Address(frand.Entropy256())}},
			Transactions: txns,
		}
		for _, txn := range txns {
			b.MinerPayouts[0].Value = b.MinerPayouts[0].Value.Add(txn.TotalFees())
		}
		findBlockNonce(cs, &b)
		if err := cm.AddBlocks([]types.Block{b}); err != nil {
			t.Fatal(err)
		}
	}
	// mineEmptyFork returns n empty blocks on top of cs
	mineEmptyFork := func(cs consensus.State, n int) (blocks []types.Block) {
		for i := 0; i < n; i++ {
			b := types.Block{
				ParentID:     cs.Index.ID,
				Timestamp:    types.CurrentTimestamp(),
				MinerPayouts: []types.SiacoinOutput{{Value: cs.BlockReward(), Address: types.Address(frand.Entropy256())}},
			}
			findBlockNonce(cs, &b)
			ancestorTimestamp, _ := store.AncestorTimestamp(b.ParentID)
			cs, _ = consensus.ApplyBlock(cs, b, store.SupplementTipBlock(b), ancestorTimestamp)
			blocks = append(blocks, b)
		}
		return
	}
	checkPoolMinable := func() {
		t.Helper()
		// every reported pool transaction must be retrievable by ID, and the
		// reported sequence must be valid on top of the tip
		ms := consensus.NewMidState(cm.TipState())
		for _, txn := range cm.PoolTransactions() {
			if _, ok := cm.PoolTransaction(txn.ID()); !ok {
				t.Fatalf("reported transaction %v is not retrievable", txn.ID())
			}
			ts := store.SupplementTipTransaction(txn)
			if err := consensus.ValidateTransaction(ms, txn, ts); err != nil {
				t.Fatalf("reported pool is not valid against the tip: %v", err)
			}
			ms.ApplyTransaction(txn, ts)
		}
	}

	// P: gift -> O
	p := types.Transaction{
		SiacoinInputs: []types.SiacoinInput{{
			ParentID:         giftTxn.SiacoinOutputID(0),
			UnlockConditions: types.StandardUnlockConditions(giftPublicKey),
		}},
		SiacoinOutputs: []types.SiacoinOutput{{Address: giftAddress, Value: giftAmountSC}},
	}
	signTxn(&p)
	// Q: O -> fee 10 SC + 90 SC
	q := types.Transaction{
		SiacoinInputs: []types.SiacoinInput{{
			ParentID:         p.SiacoinOutputID(0),
			UnlockConditions: types.StandardUnlockConditions(giftPublicKey),
		}},
		SiacoinOutputs: []types.SiacoinOutput{{Address: giftAddress, Value: types.Siacoins(90)}},
		MinerFees:      []types.Currency{types.Siacoins(10)},
	}
	signTxn(&q)
	// T: O -> fee 20 SC + 80 SC (conflicts with Q)
	tx := types.Transaction{
		SiacoinInputs: []types.SiacoinInput{{
			ParentID:         p.SiacoinOutputID(0),
			UnlockConditions: types.StandardUnlockConditions(giftPublicKey),
		}},
		SiacoinOutputs: []types.SiacoinOutput{{Address: types.VoidAddress, Value: types.Siacoins(80)}},
		MinerFees:      []types.Currency{types.Siacoins(20)},
	}
	signTxn(&tx)

	// g - B1(P) - B2(Q)
	mineBlock(p)
	mineBlock(q)
	if len(cm.PoolTransactions()) != 0 {
		t.Fatal("pool should be empty")
	}

	// reorg to a heavier fork that confirms neither P nor Q
	if err := cm.AddBlocks(mineEmptyFork(genesisState, 3)); err != nil {
		t.Fatal(err)
	} else if cm.Tip().Height != 3 {
		t.Fatal("expected a reorg to the empty fork")
	}
	// Q cannot be re-offered: its parent output does not exist on this branch
	if _, ok := cm.PoolTransaction(q.ID()); ok {
		t.Fatal("Q should not be in the pool: its input does not exist")
	}
	checkPoolMinable()

	// the set [P, T] is valid on this branch and is accepted
	if known, err := cm.AddPoolTransactions([]types.Transaction{p, tx}); known || err != nil {
		t.Fatal("set [P, T] should be accepted:", known, err)
	} else if _, ok := cm.PoolTransaction(tx.ID()); !ok {
		t.Fatal("T should be in the pool after being accepted")
	}
	checkPoolMinable()

	// a block confirms P only
	mineBlock(p)

	// T is unconfirmed, its input exists and is unspent on the chain, nothing
	// was reverted since it was accepted, and the pool is not full
	checkPoolMinable()
	if _, ok := cm.PoolTransaction(tx.ID()); !ok {
		var ids []types.TransactionID
		for _, txn := range cm.PoolTransactions() {
			ids = append(ids, txn.ID())
		}
		t.Fatalf("accepted transaction T (%v) vanished from the pool although it is still valid; pool now holds %v (Q is %v)", tx.ID(), ids, q.ID())
	}

	// and a block assembled from the pool confirms it
	mineBlock(cm.PoolTransactions()...)
	if len(cm.PoolTransactions()) != 0 {
		t.Fatal("pool should be empty after mining its contents")
	}
	tipBlock, _ := cm.Block(cm.Tip().ID)
	if len(tipBlock.Transactions) != 1 || tipBlock.Transactions[0].ID() != tx.ID() {
		t.Fatal("the block mined from the pool should have confirmed T")
	}
}

func TestGocvBoundedC05Retention(t *testing.T) {
	failures := 0
	if !t.Run("stale-reverted-transaction-does-not-evict", gocvC05RetentionBody) {
		failures++
		fmt.Fprintf(os.Stdout, "GOCV-REPLAY-FAIL scenario=stale-reverted-transaction-does-not-evict\n")
	}
	fmt.Fprintf(os.Stdout, "GOCV-BOUNDED cases=1 failures=%d\n", failures)
}
