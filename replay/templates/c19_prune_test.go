package chain_test

// Replay for C19 (written by /verif, injected with `go test -overlay`).

import (
	"fmt"
	"os"
	"reflect"
	"strings"
	"testing"
	"time"

	"go.sia.tech/core/types"
	"go.sia.tech/coreutils"
	"go.sia.tech/coreutils/chain"
	"go.sia.tech/coreutils/testutil"
)

func gocvMine19(t *testing.T, cm *chain.Manager, addr types.Address, n int) {
	t.Helper()
	for i := 0; i < n; i++ {
		b, ok := coreutils.MineBlock(cm, addr, 5*time.Second)
		if !ok {
			t.Fatal("failed to mine block")
		} else if err := cm.AddBlocks([]types.Block{b}); err != nil {
			t.Fatal(err)
		}
	}
}

func gocvNoPanic(name string, fails *[]string, fn func()) {
	defer func() {
		if r := recover(); r != nil {
			*fails = append(*fails, fmt.Sprintf("%s panicked: %v", name, r))
		}
	}()
	fn()
}

func TestGocvReplayC19(t *testing.T) {
	only := os.Getenv("GOCV_C19_ONLY") // "prune" | "resubmit" | ""
	var fails []string
	cases := 0
	const tipH = 12
	for _, pruneH := range []uint64{0, 1, 5, tipH, tipH + 1, tipH + 5} {
		n, genesisBlock := testutil.V2Network()
		store, tipState, err := chain.NewDBStore(chain.NewMemDB(), n, genesisBlock, nil)
		if err != nil {
			t.Fatal(err)
		}
		cm := chain.NewManager(store, tipState)
		twinStore, twinState, _ := chain.NewDBStore(chain.NewMemDB(), n, genesisBlock, nil)
		twin := chain.NewManager(twinStore, twinState)
		addr := types.AnyoneCanSpend().Address()
		var blocks []types.Block
		for i := 0; i < tipH; i++ {
			gocvMine19(t, cm, addr, 1)
			b, _ := cm.Block(cm.Tip().ID)
			blocks = append(blocks, b)
			if err := twin.AddBlocks([]types.Block{b}); err != nil {
				t.Fatal(err)
			}
		}
		// repeated prunes: a lower height first, then the height under test
		if pruneH >= 3 {
			gocvNoPanic("PruneBlocks(2)", &fails, func() { cm.PruneBlocks(2) })
		}
		gocvNoPanic(fmt.Sprintf("PruneBlocks(%d)", pruneH), &fails, func() { cm.PruneBlocks(pruneH) })
		if only == "" || only == "prune" {
			for h := uint64(0); h <= tipH; h++ {
				cases++
				idx, ok := cm.BestIndex(h)
				tidx, _ := twin.BestIndex(h)
				if !ok || idx != tidx {
					fails = append(fails, fmt.Sprintf("after PruneBlocks(%d): BestIndex(%d) = %v,%v, unpruned twin %v", pruneH, h, idx, ok, tidx))
					continue
				}
				_, hasBody := cm.Block(idx.ID)
				wantBody := h >= pruneH
				if hasBody != wantBody {
					fails = append(fails, fmt.Sprintf("after PruneBlocks(%d) on a chain of height %d: body of best block at height %d present=%v, want %v", pruneH, tipH, h, hasBody, wantBody))
				}
				cs, ok1 := cm.State(idx.ID)
				tcs, _ := twin.State(idx.ID)
				if !ok1 || !reflect.DeepEqual(cs.Index, tcs.Index) || cs.Elements.NumLeaves != tcs.Elements.NumLeaves {
					fails = append(fails, fmt.Sprintf("after PruneBlocks(%d): state at height %d differs from the unpruned twin", pruneH, h))
				}
			}
			// MinReorgIndex: every block from it up to (excluding) the tip has a body
			var mri types.ChainIndex
			gocvNoPanic("MinReorgIndex", &fails, func() { mri = cm.MinReorgIndex() })
			for h := mri.Height; h < tipH; h++ {
				idx, _ := cm.BestIndex(h)
				if _, ok := cm.Block(idx.ID); !ok {
					fails = append(fails, fmt.Sprintf("MinReorgIndex=%v after PruneBlocks(%d) but the block at height %d has no body", mri, pruneH, h))
				}
			}
			// requests that need pruned bodies fail with an error, never with a panic
			gocvNoPanic("UpdatesSince", &fails, func() { cm.UpdatesSince(types.ChainIndex{}, 100) })
			gocvNoPanic("BlocksForHistory", &fails, func() { cm.BlocksForHistory([]types.BlockID{genesisBlock.ID()}, 100) })
			gocvNoPanic("Headers", &fails, func() {
				g, _ := cm.BestIndex(0)
				if hs, _, err := cm.Headers(g, 100); err != nil || len(hs) != tipH {
					fails = append(fails, fmt.Sprintf("after PruneBlocks(%d): Headers from genesis returned %d headers, err=%v", pruneH, len(hs), err))
				}
			})
			gocvNoPanic("History", &fails, func() { cm.History() })
		}
		if (only == "" || only == "resubmit") && pruneH >= 2 && pruneH <= tipH {
			// resubmitting a pruned best-chain block must not change anything the node serves
			h := pruneH - 1
			idx, _ := cm.BestIndex(h)
			before, _ := cm.State(idx.ID)
			tipBefore := cm.TipState()
			var addErr error
			gocvNoPanic("AddBlocks(pruned block)", &fails, func() { addErr = cm.AddBlocks([]types.Block{blocks[h-1]}) })
			after, ok := cm.State(idx.ID)
			cases++
			if !ok || !reflect.DeepEqual(before, after) {
				fails = append(fails, fmt.Sprintf("resubmitting the pruned block at height %d (AddBlocks err=%v) changed its stored state: NumLeaves %d -> %d", h, addErr, before.Elements.NumLeaves, after.Elements.NumLeaves))
			}
			if !reflect.DeepEqual(tipBefore, cm.TipState()) {
				fails = append(fails, "resubmitting a pruned block changed the tip state")
			}
			// the node keeps working: a new block on top is accepted and matches the twin
			gocvNoPanic("mine after prune", &fails, func() {
				gocvMine19(t, cm, addr, 1)
				b, _ := cm.Block(cm.Tip().ID)
				if err := twin.AddBlocks([]types.Block{b}); err != nil {
					fails = append(fails, fmt.Sprintf("unpruned twin rejects the block mined on the pruned node: %v", err))
				} else if !reflect.DeepEqual(cm.TipState(), twin.TipState()) {
					fails = append(fails, "tip state differs from the unpruned twin after pruning, resubmission and one more block")
				}
			})
		}
	}
	t.Logf("GOCV-BOUNDED cases=%d failures=%d", cases, len(fails))
	if len(fails) > 0 {
		t.Fatalf("GOCV-REPLAY-FAIL %s", strings.Join(fails, "\n  "))
	}
}
