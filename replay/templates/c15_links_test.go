package testutil

// Bounded stand-in for "attached pools, in attachment order" (C15): detaching a pool must not
// reorder the links that remain (DebitAccount drains them in list order).
//   TestGocvBoundedC15LinkOrder   every list of up to 5 attached pools, every detach position and
//                                 every pair of successive detaches: the remaining links are the
//                                 original list without the detached pools, in the original order

import (
	"fmt"
	"os"
	"reflect"
	"testing"

	proto4 "go.sia.tech/core/rhp/v4"
	"go.sia.tech/core/types"
)

func TestGocvBoundedC15LinkOrder(t *testing.T) {
	cases, failures := 0, 0
	pool := func(i int) (p proto4.Account) { p[0] = byte(i + 1); return }
	var acct proto4.Account
	acct[31] = 0xAA
	run := func(n int, dets []int) {
		cases++
		ec := &EphemeralContractor{accounts: map[proto4.Account]types.Currency{}, pools: map[proto4.Account]types.Currency{}, attached: map[proto4.Account][]proto4.Account{}}
		var atts []proto4.PoolAttachment
		for i := 0; i < n; i++ {
			ec.pools[pool(i)] = types.ZeroCurrency
			atts = append(atts, proto4.PoolAttachment{Account: acct, Pool: pool(i)})
		}
		if err := ec.AttachPools(atts); err != nil {
			t.Fatal(err)
		}
		gone := map[int]bool{}
		for _, d := range dets {
			gone[d] = true
			if err := ec.DetachPools([]proto4.PoolDetachment{{Account: acct, Pool: pool(d)}}); err != nil {
				t.Fatal(err)
			}
		}
		var want []proto4.Account
		for i := 0; i < n; i++ {
			if !gone[i] {
				want = append(want, pool(i))
			}
		}
		got := ec.attached[acct]
		if len(got) == 0 && len(want) == 0 {
			return
		}
		if !reflect.DeepEqual(got, want) {
			failures++
			t.Errorf("GOCV-REPLAY-FAIL scenario=link-order: %d pools attached in order, detach positions %v: remaining links are in another order than attached", n, dets)
		}
	}
	for n := 1; n <= 5; n++ {
		for a := 0; a < n; a++ {
			run(n, []int{a})
			for b := 0; b < n; b++ {
				if b != a {
					run(n, []int{a, b})
				}
			}
		}
	}
	fmt.Fprintf(os.Stdout, "GOCV-BOUNDED cases=%d failures=%d\n", cases, failures)
}
