package rhp_test

// Replay for C16 (written by /verif, injected with `go test -overlay`): contract
// formation attempts that fail at different steps; afterwards the host must hold no
// contract and its wallet must have released everything it reserved.

import (
	"context"
	"fmt"
	"os"
	"strings"
	"testing"
	"time"

	proto4 "go.sia.tech/core/rhp/v4"
	"go.sia.tech/core/types"
	rhp4 "go.sia.tech/coreutils/rhp/v4"
	"go.sia.tech/coreutils/testutil"
	"go.uber.org/zap"
	"lukechampine.com/frand"
)

func TestGocvReplayC16(t *testing.T) {
	only := os.Getenv("GOCV_C16_ONLY")
	n, genesis := testutil.V2Network()
	hostKey, renterKey := types.GeneratePrivateKey(), types.GeneratePrivateKey()
	cm, w := startTestNode(t, n, genesis)
	mineAndSync(t, cm, w.Address(), int(n.MaturityDelay+20), w)
	sr := testutil.NewEphemeralSettingsReporter()
	sr.Update(proto4.HostSettings{
		Release: "test", AcceptingContracts: true, WalletAddress: w.Address(),
		MaxCollateral: types.Siacoins(10000), MaxContractDuration: 1000,
		RemainingStorage: 100 * proto4.SectorSize, TotalStorage: 100 * proto4.SectorSize,
		Prices: proto4.HostPrices{ContractPrice: types.Siacoins(1).Div64(5), StoragePrice: types.NewCurrency64(100), IngressPrice: types.NewCurrency64(100), EgressPrice: types.NewCurrency64(100), Collateral: types.NewCurrency64(200)},
	})
	ss := testutil.NewEphemeralSectorStore()
	c := testutil.NewEphemeralContractor(cm)
	transport := testRenterHostPairSiaMux(t, hostKey, cm, w, c, sr, ss, zap.NewNop())
	ctx := context.Background()
	settings, err := rhp4.RPCSettings(ctx, transport)
	if err != nil {
		t.Fatal(err)
	}
	spendable := func() (int, types.Currency) {
		b, err := w.Balance()
		if err != nil {
			t.Fatal(err)
		}
		utxos, err := w.SpendableOutputs()
		if err != nil {
			t.Fatal(err)
		}
		return len(utxos), b.Spendable
	}
	var fails []string
	cases := 0
	params := proto4.RPCFormContractParams{
		RenterPublicKey: renterKey.PublicKey(), RenterAddress: w.Address(), Allowance: types.Siacoins(100), Collateral: types.Siacoins(200), ProofHeight: cm.Tip().Height + 50,
	}
	fc, _ := proto4.NewContract(settings.Prices, params, hostKey.PublicKey(), settings.WalletAddress)
	minerFee := types.Siacoins(1)
	renterCost, _ := proto4.ContractCost(cm.TipState(), fc, minerFee)
	// a renter input that covers the cost (its proof is irrelevant for the steps exercised here)
	fakeInput := types.SiacoinElement{ID: frand.Entropy256(), StateElement: types.StateElement{LeafIndex: 0}, SiacoinOutput: types.SiacoinOutput{Address: w.Address(), Value: renterCost}}

	attempt := func(name string, basis types.ChainIndex, afterFirstResponse func()) {
		if only != "" && !strings.Contains(name, only) {
			return
		}
		cases++
		nBefore, spBefore := spendable()
		s, err := transport.DialStream(ctx)
		if err != nil {
			t.Fatal(err)
		}
		req := proto4.RPCFormContractRequest{Prices: settings.Prices, Contract: params, Basis: basis, MinerFee: minerFee, RenterInputs: []types.SiacoinElement{fakeInput.Copy()}}
		if err := proto4.WriteRequest(s, proto4.RPCFormContractID, &req); err != nil {
			t.Fatal(err)
		}
		var resp proto4.RPCFormContractResponse
		readErr := proto4.ReadResponse(s, &resp)
		if afterFirstResponse != nil && readErr == nil {
			afterFirstResponse()
		}
		s.Close()
		// wait for the handler to finish
		var nAfter int
		var spAfter types.Currency
		for i := 0; i < 100; i++ {
			nAfter, spAfter = spendable()
			if nAfter == nBefore {
				break
			}
			time.Sleep(20 * time.Millisecond)
		}
		if nAfter != nBefore || !spAfter.Equals(spBefore) {
			fails = append(fails, fmt.Sprintf("%s: after the failed formation the host wallet has %d spendable outputs (%v), before it had %d (%v): reserved outputs were not released", name, nAfter, spAfter, nBefore, spBefore))
		}
	}
	attempt("renter-disconnects-after-host-inputs", cm.Tip(), nil)
	attempt("renter-basis-unknown-to-host", types.ChainIndex{Height: cm.Tip().Height - 1, ID: frand.Entropy256()}, nil)
	attempt("renter-basis-genesis-proof-invalid", types.ChainIndex{Height: 0, ID: genesis.ID()}, nil)
	t.Logf("GOCV-BOUNDED cases=%d failures=%d", cases, len(fails))
	if len(fails) > 0 {
		t.Fatalf("GOCV-REPLAY-FAIL %s", strings.Join(fails, "\n  "))
	}
}
