package rhp_test

// Replay for C16, renter side (written by /verif, injected with `go test -overlay`):
// renew / refresh / form attempts against a transport whose stream cannot be opened;
// afterwards the renter's wallet must have released everything it reserved.

import (
	"context"
	"errors"
	"fmt"
	"net"
	"strings"
	"testing"

	proto4 "go.sia.tech/core/rhp/v4"
	"go.sia.tech/core/types"
	rhp4 "go.sia.tech/coreutils/rhp/v4"
	"go.sia.tech/coreutils/testutil"
)

type gocvDeadTransport struct{ key types.PublicKey }

func (d gocvDeadTransport) DialStream(context.Context) (net.Conn, error) {
	return nil, errors.New("host unreachable")
}
func (d gocvDeadTransport) FrameSize() int           { return 1440 }
func (d gocvDeadTransport) PeerKey() types.PublicKey { return d.key }
func (d gocvDeadTransport) Close() error             { return nil }

func TestGocvReplayC16Renter(t *testing.T) {
	n, genesis := testutil.V2Network()
	hostKey, renterKey := types.GeneratePrivateKey(), types.GeneratePrivateKey()
	cm, w := startTestNode(t, n, genesis)
	mineAndSync(t, cm, w.Address(), int(n.MaturityDelay+20), w)
	fs := &fundAndSign{w, renterKey}
	prices := proto4.HostPrices{ContractPrice: types.Siacoins(1).Div64(5), StoragePrice: types.NewCurrency64(100), IngressPrice: types.NewCurrency64(100), EgressPrice: types.NewCurrency64(100), Collateral: types.NewCurrency64(200), TipHeight: cm.Tip().Height}
	existing := types.V2FileContract{
		RevisionNumber: 1, ProofHeight: cm.Tip().Height + 20, ExpirationHeight: cm.Tip().Height + 30,
		RenterOutput: types.SiacoinOutput{Address: w.Address(), Value: types.Siacoins(10)}, HostOutput: types.SiacoinOutput{Address: w.Address(), Value: types.Siacoins(10)},
		MissedHostValue: types.Siacoins(10), TotalCollateral: types.Siacoins(10), RenterPublicKey: renterKey.PublicKey(), HostPublicKey: hostKey.PublicKey(),
	}
	spendable := func() int {
		utxos, err := w.SpendableOutputs()
		if err != nil {
			t.Fatal(err)
		}
		return len(utxos)
	}
	dead := gocvDeadTransport{hostKey.PublicKey()}
	ctx := context.Background()
	var fails []string
	run := func(name string, fn func() error) {
		before := spendable()
		err := fn()
		after := spendable()
		if err == nil {
			fails = append(fails, name+": succeeded against an unreachable host")
		} else if after != before {
			fails = append(fails, fmt.Sprintf("%s failed (%v) but the renter wallet has %d spendable outputs, before the attempt it had %d: reserved inputs were not released", name, err, after, before))
		}
	}
	run("RPCFormContract", func() error {
		_, err := rhp4.RPCFormContract(ctx, dead, cm, fs, cm.TipState(), prices, hostKey.PublicKey(), w.Address(), proto4.RPCFormContractParams{
			RenterPublicKey: renterKey.PublicKey(), RenterAddress: w.Address(), Allowance: types.Siacoins(100), Collateral: types.Siacoins(200), ProofHeight: cm.Tip().Height + 50})
		return err
	})
	run("RPCRenewContract", func() error {
		_, err := rhp4.RPCRenewContract(ctx, dead, cm, fs, cm.TipState(), prices, w.Address(), existing, proto4.RPCRenewContractParams{
			ContractID: types.FileContractID{1}, Allowance: types.Siacoins(100), Collateral: types.Siacoins(200), ProofHeight: cm.Tip().Height + 60})
		return err
	})
	run("RPCRefreshContractFullRollover", func() error {
		_, err := rhp4.RPCRefreshContractFullRollover(ctx, dead, cm, fs, cm.TipState(), prices, w.Address(), existing, proto4.RPCRefreshContractParams{
			ContractID: types.FileContractID{1}, Allowance: types.Siacoins(100), Collateral: types.Siacoins(200)})
		return err
	})
	run("RPCRefreshContractPartialRollover", func() error {
		_, err := rhp4.RPCRefreshContractPartialRollover(ctx, dead, cm, fs, cm.TipState(), prices, w.Address(), existing, proto4.RPCRefreshContractParams{
			ContractID: types.FileContractID{1}, Allowance: types.Siacoins(100), Collateral: types.Siacoins(200)})
		return err
	})
	t.Logf("GOCV-BOUNDED cases=%d failures=%d", 4, len(fails))
	if len(fails) > 0 {
		t.Fatalf("GOCV-REPLAY-FAIL %s", strings.Join(fails, "\n  "))
	}
}
