package rhp_test

// Bounded stand-in for the funding clause of C08 ("lowers the renter payout by exactly the amount
// due ... the deposited total when funding accounts/pools"), adapted from the demonstration of
// seed C08-f. Real host (Server + EphemeralContractor) over the in-process transport and a raw
// renter that signs a revision paying for j top-ups of a pool it named k times (1 <= k <= 4,
// 0 <= j <= k): the host either refuses (then nothing changes) or what it credited to the pool
// equals what the committed revision takes from the renter payout, and never exceeds the target.

import (
	"context"
	"fmt"
	"os"
	"testing"
	"time"

	proto4 "go.sia.tech/core/rhp/v4"
	"go.sia.tech/core/types"
	rhp4 "go.sia.tech/coreutils/rhp/v4"
	"go.sia.tech/coreutils/testutil"
	"go.uber.org/zap/zaptest"
)

func TestGocvBoundedC08ReplenishPayment(t *testing.T) {
	n, genesis := testutil.V2Network()
	hostKey, renterKey := types.GeneratePrivateKey(), types.GeneratePrivateKey()

	cm, w := startTestNode(t, n, genesis)
	mineAndSync(t, cm, w.Address(), int(n.MaturityDelay+20), w)

	sr := testutil.NewEphemeralSettingsReporter()
	sr.Update(proto4.HostSettings{
		Release:             "test",
		AcceptingContracts:  true,
		WalletAddress:       w.Address(),
		MaxCollateral:       types.Siacoins(10000),
		MaxContractDuration: 1000,
		RemainingStorage:    100 * proto4.SectorSize,
		TotalStorage:        100 * proto4.SectorSize,
		Prices: proto4.HostPrices{
			ContractPrice: types.Siacoins(1).Div64(5),
			StoragePrice:  types.NewCurrency64(100),
			IngressPrice:  types.NewCurrency64(100),
			EgressPrice:   types.NewCurrency64(100),
			Collateral:    types.NewCurrency64(200),
		},
	})
	ss := testutil.NewEphemeralSectorStore()
	c := testutil.NewEphemeralContractor(cm)

	transport := testRenterHostPairSiaMux(t, hostKey, cm, w, c, sr, ss, zaptest.NewLogger(t))

	settings, err := rhp4.RPCSettings(context.Background(), transport)
	if err != nil {
		t.Fatal(err)
	}

	fundAndSign := &fundAndSign{w, renterKey}
	formResult, err := rhp4.RPCFormContract(context.Background(), transport, cm, fundAndSign, cm.TipState(), settings.Prices, hostKey.PublicKey(), settings.WalletAddress, proto4.RPCFormContractParams{
		RenterPublicKey: renterKey.PublicKey(),
		RenterAddress:   w.Address(),
		Allowance:       types.Siacoins(1000),
		Collateral:      types.Siacoins(2000),
		ProofHeight:     cm.Tip().Height + 50,
	})
	if err != nil {
		t.Fatal(err)
	}
	contract := formResult.Contract
	mineAndSync(t, cm, types.VoidAddress, 1, w, c)
	cs := cm.TipState()

	cases, failures := 0, 0
	target := types.Siacoins(10)
	for k := 1; k <= 4; k++ {
		for j := 0; j <= k; j++ {
			cases++
			pool := proto4.Account(types.GeneratePrivateKey().PublicKey())
			pools := make([]proto4.Account, k)
			for i := range pools {
				pools[i] = pool
			}
			req := proto4.RPCReplenishAccountsRequest{Accounts: pools, Target: target, ContractID: contract.ID}
			req.ChallengeSignature = renterKey.SignHash(req.ChallengeSigHash(contract.Revision.RevisionNumber))
			if err := req.Validate(); err != nil {
				t.Fatal(err)
			}
			func() {
				s, err := transport.DialStream(context.Background())
				if err != nil {
					t.Fatal(err)
				}
				defer s.Close()
				s.SetDeadline(time.Now().Add(30 * time.Second))
				if err := proto4.WriteRequest(s, proto4.RPCReplenishPoolsID, &req); err != nil {
					t.Fatal(err)
				}
				var resp proto4.RPCReplenishAccountsResponse
				if err := proto4.ReadResponse(s, &resp); err != nil {
					t.Logf("k=%d j=%d: host refused the request: %v", k, j, err)
					return
				}
				revision, _, err := proto4.ReviseForReplenish(contract.Revision, target.Mul64(uint64(j)))
				if err != nil {
					t.Fatal(err)
				}
				if err := proto4.WriteResponse(s, &proto4.RPCReplenishAccountsSecondResponse{RenterSignature: renterKey.SignHash(cs.ContractSigHash(revision))}); err != nil {
					return
				}
				var hostSig proto4.RPCReplenishAccountsThirdResponse
				if err := proto4.ReadResponse(s, &hostSig); err != nil {
					t.Logf("k=%d j=%d: host rejected: %v", k, j, err)
				}
			}()
			latest, err := rhp4.RPCLatestRevision(context.Background(), transport, contract.ID)
			if err != nil {
				t.Fatal(err)
			}
			paid := contract.Revision.RenterOutput.Value.Sub(latest.Contract.RenterOutput.Value)
			balances, err := c.PoolBalances([]proto4.Account{pool})
			if err != nil {
				t.Fatal(err)
			}
			if !balances[0].Equals(paid) || balances[0].Cmp(target) > 0 {
				failures++
				t.Errorf("GOCV-REPLAY-FAIL scenario=replenish-payment: empty pool named %d times, renter signs for %d top-ups of %v: pool credited %v, committed revision lowers the renter payout by %v", k, j, target, balances[0], paid)
			}
			contract.Revision = latest.Contract
		}
	}
	fmt.Fprintf(os.Stdout, "GOCV-BOUNDED cases=%d failures=%d\n", cases, failures)
}
