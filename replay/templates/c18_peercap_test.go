package syncer_test

// Bounded stand-in for the peer-cap part of C18: "the inbound/outbound peer caps hold even when
// many connections are attempted at once". Real syncer, real TCP on loopback.
//   TestGocvBoundedC18PeerCap   N clients connect, all complete the TCP accept before any of them
//                               sends its handshake (so all cap checks run before any insertion);
//                               afterwards the number of registered inbound peers must be <= cap

import (
	"fmt"
	"net"
	"os"
	"sync"
	"testing"
	"time"

	"go.sia.tech/core/gateway"
	"go.sia.tech/coreutils/chain"
	"go.sia.tech/coreutils/syncer"
	"go.sia.tech/coreutils/testutil"
)

func gocvC18Server(t *testing.T, cap int) (*syncer.Syncer, gateway.Header) {
	n, genesis := testutil.Network()
	store, tipState, err := chain.NewDBStore(chain.NewMemDB(), n, genesis, nil)
	if err != nil {
		t.Fatal(err)
	}
	cm := chain.NewManager(store, tipState)
	l, err := net.Listen("tcp", "127.0.0.1:0")
	if err != nil {
		t.Fatal(err)
	}
	t.Cleanup(func() { l.Close() })
	h := gateway.Header{GenesisID: genesis.ID(), UniqueID: gateway.GenerateUniqueID(), NetAddress: l.Addr().String()}
	s := syncer.New(l, cm, testutil.NewEphemeralPeerStore(), h, syncer.WithMaxInboundPeers(cap), syncer.WithSyncInterval(time.Hour), syncer.WithPeerDiscoveryInterval(time.Hour))
	go s.Run()
	t.Cleanup(func() { s.Close() })
	return s, h
}

func TestGocvBoundedC18PeerCap(t *testing.T) {
	cases, failures := 0, 0
	for _, cfg := range []struct{ cap, clients int }{{1, 8}, {2, 8}, {3, 16}} {
		cases++
		s, h := gocvC18Server(t, cfg.cap)
		conns := make([]net.Conn, cfg.clients)
		for i := range conns {
			c, err := net.Dial("tcp", s.Addr())
			if err != nil {
				t.Fatal(err)
			}
			defer c.Close()
			conns[i] = c
		}
		// every connection has been accepted and has passed the cap check before any handshake
		time.Sleep(300 * time.Millisecond)
		var wg sync.WaitGroup
		for i, c := range conns {
			wg.Add(1)
			go func() {
				defer wg.Done()
				c.SetDeadline(time.Now().Add(5 * time.Second))
				gateway.Dial(c, gateway.Header{GenesisID: h.GenesisID, UniqueID: gateway.GenerateUniqueID(), NetAddress: fmt.Sprintf("127.0.0.1:%d", 20000+i)})
			}()
		}
		wg.Wait()
		time.Sleep(300 * time.Millisecond)
		in := 0
		for _, p := range s.Peers() {
			if p.Inbound {
				in++
			}
		}
		if in > cfg.cap {
			failures++
			t.Errorf("GOCV-REPLAY-FAIL scenario=peer-cap cap=%d clients=%d: %d inbound peers are registered at once", cfg.cap, cfg.clients, in)
		}
	}
	fmt.Fprintf(os.Stdout, "GOCV-BOUNDED cases=%d failures=%d\n", cases, failures)
}
