package wallet

// Replay / data checks for C20 (written by /verif, injected with `go test
// -overlay`; never part of the repository).

import (
	"bytes"
	"encoding/binary"
	"math/rand"
	"os"
	"strconv"
	"strings"
	"testing"
	"unicode"
)

// TestGocvDataC20 establishes, by exhaustive evaluation of the real tables, the
// data axioms the contracts of wallet/seed.go assume (contracts_verif.go).
func TestGocvDataC20(t *testing.T) {
	fail := 0
	if len(bip39EnglishWordList) != 2048 {
		t.Errorf("GOCV-REPLAY-FAIL word list has %d entries", len(bip39EnglishWordList))
		fail++
	}
	if len(wordMap) != len(bip39EnglishWordList) {
		t.Errorf("GOCV-REPLAY-FAIL wordMap has %d entries (duplicates in the list?)", len(wordMap))
		fail++
	}
	for i, w := range bip39EnglishWordList {
		clean := w != ""
		for _, r := range w {
			if unicode.IsSpace(r) {
				clean = false
			}
		}
		if !clean {
			t.Errorf("GOCV-REPLAY-FAIL word %d %q is empty or contains white space", i, w)
			fail++
		}
		if j, ok := wordMap[w]; !ok || j != uint64(i) {
			t.Errorf("GOCV-REPLAY-FAIL wordMap[%q] = %d,%v, want %d", w, j, ok, i)
			fail++
		}
	}
	for w, j := range wordMap {
		if j >= 2048 || bip39EnglishWordList[j] != w {
			t.Errorf("GOCV-REPLAY-FAIL wordMap entry %q -> %d is not the inverse of the list", w, j)
			fail++
		}
	}
	// std-lib assumption, sampled: Fields(Join(ws, " ")) == ws for list words
	rng := rand.New(rand.NewSource(1))
	samples := 20000
	for n := 0; n < samples; n++ {
		ws := make([]string, 12)
		for i := range ws {
			ws[i] = bip39EnglishWordList[rng.Intn(2048)]
		}
		got := strings.Fields(strings.Join(ws, " "))
		if len(got) != 12 {
			t.Errorf("GOCV-REPLAY-FAIL Fields(Join) length %d", len(got))
			fail++
			break
		}
		for i := range ws {
			if got[i] != ws[i] {
				t.Errorf("GOCV-REPLAY-FAIL Fields(Join) word %d", i)
				fail++
			}
		}
	}
	t.Logf("GOCV-BOUNDED cases=%d failures=%d", 2048+len(wordMap)+samples, fail)
}

// TestGocvReplayC20 searches for an entropy / phrase that breaks the round trips.
func TestGocvReplayC20(t *testing.T) {
	n := 200000
	if s := os.Getenv("GOCV_C20_N"); s != "" {
		n, _ = strconv.Atoi(s)
	}
	seed := int64(1)
	if s := os.Getenv("VERIF_SEED"); s != "" {
		seed, _ = strconv.ParseInt(s, 10, 64)
	}
	rng := rand.New(rand.NewSource(seed))
	fail := 0
	cases := 0
	check := func(e [16]byte) {
		cases++
		p := encodeBIP39Phrase(&e)
		var d [16]byte
		if err := decodeBIP39Phrase(&d, p); err != nil || d != e {
			if fail == 0 {
				t.Errorf("GOCV-REPLAY-FAIL entropy %x encodes to %q which decodes to %x (err=%v)", e, p, d, err)
			}
			fail++
		}
		if len(strings.Fields(p)) != 12 {
			if fail == 0 {
				t.Errorf("GOCV-REPLAY-FAIL entropy %x encodes to %d words", e, len(strings.Fields(p)))
			}
			fail++
		}
	}
	// every single-bit and every byte-value pattern, then random ones
	for bit := 0; bit < 128; bit++ {
		var e [16]byte
		e[bit/8] = 1 << (bit % 8)
		check(e)
		for i := range e {
			e[i] = ^e[i]
		}
		check(e)
	}
	for i := 0; i < 16; i++ {
		for v := 0; v < 256; v++ {
			var e [16]byte
			e[i] = byte(v)
			check(e)
		}
	}
	for i := 0; i < n; i++ {
		var e [16]byte
		binary.BigEndian.PutUint64(e[:8], rng.Uint64())
		binary.BigEndian.PutUint64(e[8:], rng.Uint64())
		check(e)
	}
	// phrases: every value of every single word position around a valid phrase, and random ones
	checkPhrase := func(idx [12]uint64) {
		cases++
		ws := make([]string, 12)
		for i := range ws {
			ws[i] = bip39EnglishWordList[idx[i]]
		}
		p := strings.Join(ws, " ")
		var d [16]byte
		err := decodeBIP39Phrase(&d, p)
		// independent reference for the checksum: recompute from the first 128 bits
		var bits [17]byte
		acc, nb, k := uint32(0), 0, 0
		for _, v := range idx {
			acc = acc<<11 | uint32(v)
			nb += 11
			for nb >= 8 && k < 17 {
				bits[k] = byte(acc >> uint(nb-8))
				nb -= 8
				k++
			}
		}
		var ent [16]byte
		copy(ent[:], bits[:16])
		want := bip39checksum(&ent) == idx[11]&0xF
		if (err == nil) != want {
			if fail == 0 {
				t.Errorf("GOCV-REPLAY-FAIL phrase %q: decode err=%v but checksum-correct=%v", p, err, want)
			}
			fail++
			return
		}
		if err == nil {
			if !bytes.Equal(d[:], ent[:]) {
				if fail == 0 {
					t.Errorf("GOCV-REPLAY-FAIL phrase %q decodes to %x, reference %x", p, d, ent)
				}
				fail++
			}
			if q := encodeBIP39Phrase(&d); q != p {
				if fail == 0 {
					t.Errorf("GOCV-REPLAY-FAIL phrase %q re-encodes to %q", p, q)
				}
				fail++
			}
		}
		// whitespace variations must not matter
		var d2 [16]byte
		err2 := decodeBIP39Phrase(&d2, "  "+strings.Join(ws, " \t\n ")+" ")
		if (err2 == nil) != (err == nil) || (err == nil && d2 != d) {
			if fail == 0 {
				t.Errorf("GOCV-REPLAY-FAIL phrase %q: white space changes the result", p)
			}
			fail++
		}
	}
	var base [12]uint64
	for pos := 0; pos < 12; pos++ {
		for v := uint64(0); v < 2048; v++ {
			idx := base
			idx[pos] = v
			checkPhrase(idx)
		}
	}
	for i := 0; i < n/4; i++ {
		var idx [12]uint64
		for j := range idx {
			idx[j] = uint64(rng.Intn(2048))
		}
		checkPhrase(idx)
	}
	// malformed phrases are rejected
	for _, p := range []string{"", "abandon", strings.Repeat("abandon ", 11), strings.Repeat("abandon ", 13), strings.Repeat("abandon ", 11) + "notaword"} {
		cases++
		var d [16]byte
		if err := decodeBIP39Phrase(&d, p); err == nil {
			t.Errorf("GOCV-REPLAY-FAIL malformed phrase %q accepted", p)
			fail++
		}
	}
	t.Logf("GOCV-BOUNDED cases=%d failures=%d", cases, fail)
}
