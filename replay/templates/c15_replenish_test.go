package rhp_test

// Bounded stand-in for the replenish clause of C15: "Replenishing tops each account or pool up
// to, and never beyond, the target". Real host (Server + EphemeralContractor) and the real renter
// RPCs over the in-process transport.
//   TestGocvBoundedC15Replenish   a replenish request that names the same account (pool) more than
//                                 once, next to fresh and already-full ones: afterwards every
//                                 named balance is exactly max(balance before, target)

import (
	"context"
	"fmt"
	"os"
	"testing"

	proto4 "go.sia.tech/core/rhp/v4"
	"go.sia.tech/core/types"
	rhp4 "go.sia.tech/coreutils/rhp/v4"
	"go.sia.tech/coreutils/testutil"
	"go.uber.org/zap/zaptest"
	"lukechampine.com/frand"
)

func TestGocvBoundedC15Replenish(t *testing.T) {
	n, genesis := testutil.V2Network()
	hostKey, renterKey := types.GeneratePrivateKey(), types.GeneratePrivateKey()
	cm, w := startTestNode(t, n, genesis)
	mineAndSync(t, cm, w.Address(), int(n.MaturityDelay+20), w)
	sr := testutil.NewEphemeralSettingsReporter()
	sr.Update(proto4.HostSettings{
		Release: "test", AcceptingContracts: true, WalletAddress: w.Address(),
		MaxCollateral: types.Siacoins(10000), MaxContractDuration: 1000,
		RemainingStorage: 100 * proto4.SectorSize, TotalStorage: 100 * proto4.SectorSize,
		Prices: proto4.HostPrices{ContractPrice: types.Siacoins(1).Div64(5), StoragePrice: types.NewCurrency64(100),
			IngressPrice: types.NewCurrency64(100), EgressPrice: types.NewCurrency64(100), Collateral: types.NewCurrency64(200)},
	})
	ss := testutil.NewEphemeralSectorStore()
	c := testutil.NewEphemeralContractor(cm)
	transport := testRenterHostPairSiaMux(t, hostKey, cm, w, c, sr, ss, zaptest.NewLogger(t))
	settings, err := rhp4.RPCSettings(context.Background(), transport)
	if err != nil {
		t.Fatal(err)
	}
	fs := &fundAndSign{w, renterKey}
	formResult, err := rhp4.RPCFormContract(context.Background(), transport, cm, fs, cm.TipState(), settings.Prices, hostKey.PublicKey(), settings.WalletAddress, proto4.RPCFormContractParams{
		RenterPublicKey: renterKey.PublicKey(), RenterAddress: w.Address(),
		Allowance: types.Siacoins(1000), Collateral: types.Siacoins(2000), ProofHeight: cm.Tip().Height + 50,
	})
	if err != nil {
		t.Fatal(err)
	}
	revision := formResult.Contract
	mineAndSync(t, cm, types.VoidAddress, 1, w, c)
	cs := cm.TipState()

	cases, failures := 0, 0
	target := types.Siacoins(1)
	low, full, fresh := proto4.Account(frand.Entropy256()), proto4.Account(frand.Entropy256()), proto4.Account(frand.Entropy256())
	fund, err := rhp4.RPCFundAccounts(context.Background(), transport, cs, renterKey, revision, []proto4.AccountDeposit{
		{Account: low, Amount: types.Siacoins(1).Div64(4)}, {Account: full, Amount: types.Siacoins(3)},
	})
	if err != nil {
		t.Fatal(err)
	}
	revision.Revision = fund.Revision
	before := map[proto4.Account]types.Currency{low: types.Siacoins(1).Div64(4), full: types.Siacoins(3), fresh: types.ZeroCurrency}

	// the same account twice (and a third time at the end), next to a full and a fresh one
	accounts := []proto4.Account{low, full, low, fresh, fresh, low}
	res, err := rhp4.RPCReplenishAccounts(context.Background(), transport, rhp4.RPCReplenishAccountsParams{Contract: revision, Target: target, Accounts: accounts}, cs, fs)
	if err != nil {
		// refusing such a request is a way of not exceeding the target
		t.Logf("replenish with repeated accounts refused: %v", err)
	} else {
		revision.Revision = res.Revision
	}
	for acc, b := range before {
		cases++
		got, err := c.AccountBalance(acc)
		if err != nil {
			t.Fatal(err)
		}
		want := b
		if err == nil && res.Revision.RevisionNumber != 0 && b.Cmp(target) < 0 {
			want = target
		}
		if !got.Equals(want) {
			failures++
			t.Errorf("GOCV-REPLAY-FAIL scenario=replenish-repeated-account: account with balance %v named %d times in a replenish to target %v ends at %v, want %v", b, count(accounts, acc), target, got, want)
		}
	}
	// the same for pools (created on first credit): one pool named three times
	pool, pool2 := proto4.Account(frand.Entropy256()), proto4.Account(frand.Entropy256())
	pools := []proto4.Account{pool, pool2, pool, pool}
	pres, err := rhp4.RPCReplenishPools(context.Background(), transport, rhp4.RPCReplenishPoolsParams{Contract: revision, Target: target, Pools: pools}, cs, fs)
	if err != nil {
		t.Logf("pool replenish with repeated pools refused: %v", err)
	}
	pb, err := c.PoolBalances([]proto4.Account{pool, pool2})
	if err != nil {
		t.Fatal(err)
	}
	for i, got := range pb {
		cases++
		want := types.ZeroCurrency
		if pres.Revision.RevisionNumber != 0 {
			want = target
		}
		if !got.Equals(want) {
			failures++
			t.Errorf("GOCV-REPLAY-FAIL scenario=replenish-repeated-pool: empty pool named %d times in a replenish to target %v ends at %v, want %v", count(pools, []proto4.Account{pool, pool2}[i]), target, got, want)
		}
	}
	fmt.Fprintf(os.Stdout, "GOCV-BOUNDED cases=%d failures=%d\n", cases, failures)
}

func count(as []proto4.Account, a proto4.Account) (n int) {
	for _, x := range as {
		if x == a {
			n++
		}
	}
	return
}
