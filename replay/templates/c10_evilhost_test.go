package rhp_test

// Replay for C10 (written by /verif, injected with `go test -overlay`): renter
// RPC functions talk to an in-process Byzantine host over net.Pipe. Every
// scenario must end in an error (never success, never a panic).

import (
	"context"
	"fmt"
	"net"
	"os"
	"strings"
	"testing"
	"time"

	"go.sia.tech/core/consensus"
	proto4 "go.sia.tech/core/rhp/v4"
	"go.sia.tech/core/types"
	rhp4 "go.sia.tech/coreutils/rhp/v4"
	"go.sia.tech/coreutils/testutil"
	"lukechampine.com/frand"
)

type gocvEvilHost struct {
	hostKey  types.PrivateKey
	cs       consensus.State
	contract types.V2FileContract
	mode     string
}

func (h *gocvEvilHost) FrameSize() int           { return 1440 }
func (h *gocvEvilHost) PeerKey() types.PublicKey { return h.hostKey.PublicKey() }
func (h *gocvEvilHost) Close() error             { return nil }
func (h *gocvEvilHost) DialStream(context.Context) (net.Conn, error) {
	client, server := net.Pipe()
	go h.serve(server)
	return client, nil
}

func (h *gocvEvilHost) serve(s net.Conn) {
	defer s.Close()
	s.SetDeadline(time.Now().Add(5 * time.Second))
	id, err := proto4.ReadID(s)
	if err != nil {
		return
	}
	switch id {
	case proto4.RPCSectorRootsID:
		var req proto4.RPCSectorRootsRequest
		if proto4.ReadRequest(s, &req) != nil {
			return
		}
		n := int(req.Length)
		switch h.mode {
		case "roots-more":
			n++
		case "roots-fewer":
			n--
		case "roots-none":
			n = 0
		}
		resp := proto4.RPCSectorRootsResponse{Roots: make([]types.Hash256, n), Proof: make([]types.Hash256, 2)}
		for i := range resp.Roots {
			resp.Roots[i] = frand.Entropy256()
		}
		revision, _, _ := proto4.ReviseForSectorRoots(h.contract, req.Prices, req.Length)
		resp.HostSignature = h.hostKey.SignHash(h.cs.ContractSigHash(revision))
		proto4.WriteResponse(s, &resp)
	case proto4.RPCVerifySectorID:
		var req proto4.RPCVerifySectorRequest
		if proto4.ReadRequest(s, &req) != nil {
			return
		}
		resp := proto4.RPCVerifySectorResponse{Proof: make([]types.Hash256, 16)}
		frand.Read(resp.Leaf[:])
		proto4.WriteResponse(s, &resp)
	case proto4.RPCReplenishAccountsID:
		var req proto4.RPCReplenishAccountsRequest
		if proto4.ReadRequest(s, &req) != nil {
			return
		}
		var resp proto4.RPCReplenishAccountsResponse
		for _, a := range req.Accounts {
			resp.Deposits = append(resp.Deposits, proto4.AccountDeposit{Account: a, Amount: req.Target})
		}
		switch h.mode {
		case "replenish-extra":
			for i := 0; i < 6; i++ {
				var extra proto4.Account
				extra[0], extra[1] = 0xEE, byte(i+1)
				resp.Deposits = append(resp.Deposits, proto4.AccountDeposit{Account: extra, Amount: req.Target})
			}
		case "replenish-over-target":
			resp.Deposits[0].Amount = req.Target.Add(types.NewCurrency64(1))
		}
		if proto4.WriteResponse(s, &resp) != nil {
			return
		}
		var renterSig proto4.RPCReplenishAccountsSecondResponse
		if proto4.ReadResponse(s, &renterSig) != nil {
			return
		}
		revision, _, err := proto4.ReviseForReplenish(h.contract, resp.TotalCost())
		if err != nil {
			return
		}
		sigHash := h.cs.ContractSigHash(revision)
		sig := h.hostKey.SignHash(sigHash)
		if h.mode == "replenish-badsig" {
			sig[0] ^= 0xFF
		}
		proto4.WriteResponse(s, &proto4.RPCReplenishAccountsThirdResponse{HostSignature: sig})
	case proto4.RPCFundAccountsID:
		var req proto4.RPCFundAccountsRequest
		if proto4.ReadRequest(s, &req) != nil {
			return
		}
		var total types.Currency
		for _, d := range req.Deposits {
			total = total.Add(d.Amount)
		}
		// sign a revision for a different (larger) amount than the renter signed for
		if h.mode == "fund-other-revision" {
			total = total.Add(types.Siacoins(1))
		}
		revision, _, _ := proto4.ReviseForFundAccounts(h.contract, total)
		resp := proto4.RPCFundAccountsResponse{Balances: make([]types.Currency, len(req.Deposits)), HostSignature: h.hostKey.SignHash(h.cs.ContractSigHash(revision))}
		if h.mode == "fund-fewer-balances" {
			resp.Balances = resp.Balances[:0]
			revision, _, _ = proto4.ReviseForFundAccounts(h.contract, total)
		}
		proto4.WriteResponse(s, &resp)
	}
}

func TestGocvReplayC10(t *testing.T) {
	only := os.Getenv("GOCV_C10_ONLY")
	n, _ := testutil.V2Network()
	cs := n.GenesisState()
	hostKey := types.GeneratePrivateKey()
	renterKey := types.GeneratePrivateKey()
	contract := types.V2FileContract{
		RevisionNumber:   1,
		Filesize:         8 * proto4.SectorSize,
		Capacity:         8 * proto4.SectorSize,
		ProofHeight:      100,
		ExpirationHeight: 200,
		RenterOutput:     types.SiacoinOutput{Value: types.Siacoins(1000)},
		HostOutput:       types.SiacoinOutput{Value: types.Siacoins(10)},
		MissedHostValue:  types.Siacoins(10),
		TotalCollateral:  types.Siacoins(10),
		RenterPublicKey:  renterKey.PublicKey(),
		HostPublicKey:    hostKey.PublicKey(),
	}
	cr := rhp4.ContractRevision{ID: types.FileContractID{1}, Revision: contract}
	prices := proto4.HostPrices{ValidUntil: time.Now().Add(time.Hour), TipHeight: 1}
	prices.Signature = hostKey.SignHash(prices.SigHash())
	account := proto4.Account(renterKey.PublicKey())
	token := proto4.AccountToken{HostKey: hostKey.PublicKey(), Account: account, ValidUntil: time.Now().Add(time.Hour)}
	token.Signature = renterKey.SignHash(token.SigHash())

	var fails []string
	cases := 0
	run := func(mode string, fn func(h *gocvEvilHost) error) {
		if only != "" && !strings.HasPrefix(mode, only) {
			return
		}
		cases++
		h := &gocvEvilHost{hostKey: hostKey, cs: cs, contract: contract, mode: mode}
		var err error
		func() {
			defer func() {
				if r := recover(); r != nil {
					err = nil
					fails = append(fails, fmt.Sprintf("%s: the renter PANICKED: %v", mode, r))
				}
			}()
			err = fn(h)
			if err == nil {
				fails = append(fails, fmt.Sprintf("%s: the renter reported success against a misbehaving host", mode))
			}
		}()
	}
	ctx, cancel := context.WithTimeout(context.Background(), 30*time.Second)
	defer cancel()
	for _, m := range []string{"roots-more", "roots-fewer", "roots-none", "roots-badproof"} {
		run(m, func(h *gocvEvilHost) error {
			_, err := rhp4.RPCSectorRoots(ctx, h, cs, prices, renterKey, cr, 1, 3)
			return err
		})
	}
	run("verify-badproof", func(h *gocvEvilHost) error {
		_, err := rhp4.RPCVerifySector(ctx, h, prices, token, types.Hash256{1})
		return err
	})
	for _, m := range []string{"replenish-extra", "replenish-over-target", "replenish-badsig"} {
		run(m, func(h *gocvEvilHost) error {
			_, err := rhp4.RPCReplenishAccounts(ctx, h, rhp4.RPCReplenishAccountsParams{
				Accounts: []proto4.Account{account, proto4.Account(hostKey.PublicKey())},
				Target:   types.Siacoins(5),
				Contract: cr,
			}, cs, renterKey)
			return err
		})
	}
	for _, m := range []string{"fund-other-revision", "fund-fewer-balances"} {
		run(m, func(h *gocvEvilHost) error {
			_, err := rhp4.RPCFundAccounts(ctx, h, cs, renterKey, cr, []proto4.AccountDeposit{{Account: account, Amount: types.Siacoins(1)}})
			return err
		})
	}
	t.Logf("GOCV-BOUNDED cases=%d failures=%d", cases, len(fails))
	if len(fails) > 0 {
		t.Fatalf("GOCV-REPLAY-FAIL %s", strings.Join(fails, "\n  "))
	}
}
