package chain

// Replay / bounded stand-in for C02 (apply followed by revert restores what the
// store serves), injected into package chain with `go test -overlay`.
//
// The element buckets are exercised through the very primitives applyElements /
// revertElements call, in the order they call them for each kind of diff, on a
// real DBStore over MemDB:
//   TestGocvReplayC02          element buckets: created / spent / ephemeral / revised /
//                              resolved diffs applied then reverted restore every bucket;
//                              expiration lists are restored as multisets
//   TestGocvKnownC02Order      the ORDER of an expiration list after a resolution (or a
//                              window change) is applied and reverted -- known finding K13

import (
	"fmt"
	"os"
	"reflect"
	"sort"
	"strings"
	"testing"

	"go.sia.tech/core/types"
	"lukechampine.com/frand"
)

func gocvC02Store(t *testing.T) *DBStore {
	n, genesis := TestnetZen()
	n.InitialTarget = types.BlockID{0xFF}
	db, _, err := NewDBStore(NewMemDB(), n, genesis, nil)
	if err != nil {
		t.Fatal(err)
	}
	return db
}

func gocvC02SCE(leaf uint64) types.SiacoinElement {
	return types.SiacoinElement{
		ID:             frand.Entropy256(),
		StateElement:   types.StateElement{LeafIndex: leaf},
		SiacoinOutput:  types.SiacoinOutput{Value: types.Siacoins(uint32(1 + leaf)), Address: frand.Entropy256()},
		MaturityHeight: leaf,
	}
}

func gocvC02FCE(leaf, windowEnd uint64) types.FileContractElement {
	return types.FileContractElement{
		ID:           frand.Entropy256(),
		StateElement: types.StateElement{LeafIndex: leaf},
		FileContract: types.FileContract{Filesize: leaf, WindowStart: windowEnd - 1, WindowEnd: windowEnd, RevisionNumber: 1},
	}
}

// snapshot of what the store serves for the ids of interest
func gocvC02Snap(db *DBStore, scs []types.SiacoinOutputID, fcs []types.FileContractID, heights []uint64) string {
	var sb strings.Builder
	for _, id := range scs {
		var sce types.SiacoinElement
		ok := db.bucket(bSiacoinElements).get(id[:], &sce)
		fmt.Fprintf(&sb, "sc %v %v %v %v %v\n", id, ok, sce.SiacoinOutput, sce.MaturityHeight, sce.StateElement.LeafIndex)
	}
	for _, id := range fcs {
		var fce types.FileContractElement
		ok := db.bucket(bFileContractElements).get(id[:], &fce)
		fmt.Fprintf(&sb, "fc %v %v %v %v\n", id, ok, fce.FileContract, fce.StateElement.LeafIndex)
	}
	for _, h := range heights {
		ids := db.ExpiringFileContractIDs(h)
		s := make([]string, len(ids))
		for i := range ids {
			s[i] = ids[i].String()
		}
		sort.Strings(s)
		fmt.Fprintf(&sb, "exp(multiset) %d %v\n", h, s)
	}
	return sb.String()
}

func TestGocvReplayC02(t *testing.T) {
	cases, failures := 0, 0
	check := func(name string, before, after string) {
		cases++
		if before != after {
			failures++
			t.Errorf("GOCV-REPLAY-FAIL scenario=%s: the store does not serve what it served before the block was applied\nbefore:\n%safter:\n%s", name, before, after)
		}
	}
	for round := 0; round < 20; round++ {
		db := gocvC02Store(t)
		// existing state: three outputs and three contracts expiring at height 50, one at 60
		old := []types.SiacoinElement{gocvC02SCE(1), gocvC02SCE(2), gocvC02SCE(3)}
		for _, sce := range old {
			db.putSiacoinElement(sce)
		}
		fces := []types.FileContractElement{gocvC02FCE(4, 50), gocvC02FCE(5, 50), gocvC02FCE(6, 50), gocvC02FCE(7, 60)}
		for _, fce := range fces {
			db.putFileContractElement(fce)
			db.putFileContractExpiration(fce.ID, fce.FileContract.WindowEnd, true)
		}
		created := gocvC02SCE(8)
		newFC := gocvC02FCE(9, 50)
		scIDs := []types.SiacoinOutputID{old[0].ID, old[1].ID, old[2].ID, created.ID}
		fcIDs := []types.FileContractID{fces[0].ID, fces[1].ID, fces[2].ID, fces[3].ID, newFC.ID}
		heights := []uint64{50, 60, 70}
		before := gocvC02Snap(db, scIDs, fcIDs, heights)

		spent := old[frand.Intn(3)]
		resolved := fces[frand.Intn(3)]
		revised := fces[3]
		rev := revised
		rev.FileContract.RevisionNumber++
		rev.FileContract.WindowEnd = 70

		// applyElements, in its order: siacoin diffs, then file contract diffs
		db.deleteSiacoinElement(spent.ID) // spent
		db.putSiacoinElement(created)     // created
		db.deleteFileContractElement(resolved.ID)
		db.deleteFileContractExpiration(resolved.ID, resolved.FileContract.WindowEnd) // resolved
		db.putFileContractElement(rev)
		db.deleteFileContractExpiration(revised.ID, revised.FileContract.WindowEnd)
		db.putFileContractExpiration(revised.ID, rev.FileContract.WindowEnd, true) // revised with a window change
		db.putFileContractElement(newFC)
		db.putFileContractExpiration(newFC.ID, newFC.FileContract.WindowEnd, true) // created

		// revertElements, in its order: file contract diffs, then siacoin diffs
		db.putFileContractElement(resolved)
		db.putFileContractExpiration(resolved.ID, resolved.FileContract.WindowEnd, false)
		db.putFileContractElement(revised)
		db.deleteFileContractExpiration(revised.ID, rev.FileContract.WindowEnd)
		db.putFileContractExpiration(revised.ID, revised.FileContract.WindowEnd, false)
		db.deleteFileContractElement(newFC.ID)
		db.deleteFileContractExpiration(newFC.ID, newFC.FileContract.WindowEnd)
		db.putSiacoinElement(spent)
		db.deleteSiacoinElement(created.ID)

		check(fmt.Sprintf("apply-revert round=%d", round), before, gocvC02Snap(db, scIDs, fcIDs, heights))
	}
	fmt.Fprintf(os.Stdout, "GOCV-BOUNDED cases=%d failures=%d\n", cases, failures)
}

// Known finding K13: the expiration list of a height is an ordered list (its order decides the
// leaf indices of missed-proof outputs); resolving a contract that is not last in its list and
// reverting that block brings the contract back at the FRONT of the list (swap-remove, then
// prepend), so the store serves a different order than a node that never saw the block.
func TestGocvKnownC02Order(t *testing.T) {
	db := gocvC02Store(t)
	a, b, c := gocvC02FCE(1, 50), gocvC02FCE(2, 50), gocvC02FCE(3, 50)
	for _, fce := range []types.FileContractElement{a, b, c} {
		db.putFileContractExpiration(fce.ID, 50, true)
	}
	before := db.ExpiringFileContractIDs(50)
	// a block resolving b is applied, then reverted
	db.deleteFileContractExpiration(b.ID, 50)
	db.putFileContractExpiration(b.ID, 50, false)
	after := db.ExpiringFileContractIDs(50)
	fmt.Fprintf(os.Stdout, "GOCV-BOUNDED cases=1 failures=%d\n", map[bool]int{true: 0, false: 1}[reflect.DeepEqual(before, after)])
	if !reflect.DeepEqual(before, after) {
		t.Errorf("GOCV-REPLAY-FAIL scenario=expiration-order: list [a b c], resolve b, revert: served order is %v, a node that never saw the block serves %v", after, before)
	}
}
