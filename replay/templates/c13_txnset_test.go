package chain

// Replay / bounded stand-in for C13 (rebasing and assembling v2 transaction
// sets), injected into package chain with `go test -overlay`. Uses the helpers
// of the repository's own manager_test.go (TestnetZen, findBlockNonce).
//
// Scenarios:
//   deep-ancestors   chains of 1, 2, 3 and 5 pooled ancestors: all of them are in the set, in order
//   parent-order     a pooled parent that itself depends on another pooled parent:
//                    V2TransactionSet must return parents before children whatever
//                    the order of the inputs that reference them
//   mixed-pools      a v2 transaction that names an output created by a pooled v1
//                    transaction: no panic, no unrelated transaction in the set
//   unknown-basis    unknown from / to are errors, not panics; input not modified
//   rebase           rebasing across a mined block keeps order, drops the confirmed
//                    transaction and turns ephemeral parents into confirmed ones

import (
	"fmt"
	"os"
	"reflect"
	"strings"
	"testing"

	"go.sia.tech/core/types"
	"lukechampine.com/frand"
)

type gocvC13Env struct {
	cm   *Manager
	pk   types.PrivateKey
	addr types.Address
	gift []types.SiacoinElement
}

func gocvC13Setup(t *testing.T, gifts int) *gocvC13Env {
	n, genesisBlock := TestnetZen()
	n.InitialTarget = types.BlockID{0xFF}
	n.HardforkDevAddr.Height = 0
	n.HardforkTax.Height = 0
	n.HardforkStorageProof.Height = 0
	n.HardforkOak.Height = 0
	n.HardforkOak.FixHeight = 0
	n.HardforkASIC.Height = 0
	n.HardforkFoundation.Height = 0
	n.HardforkV2.AllowHeight = 0
	n.HardforkV2.RequireHeight = 1000

	pk := types.GeneratePrivateKey()
	addr := types.StandardUnlockHash(pk.PublicKey())
	var giftTxn types.Transaction
	for i := 0; i < gifts; i++ {
		giftTxn.SiacoinOutputs = append(giftTxn.SiacoinOutputs, types.SiacoinOutput{Address: addr, Value: types.Siacoins(uint32(100 + i))})
	}
	genesisBlock.Transactions = []types.Transaction{giftTxn}
	store, genesisState, err := NewDBStore(NewMemDB(), n, genesisBlock, nil)
	if err != nil {
		t.Fatal(err)
	}
	cm := NewManager(store, genesisState)
	e := &gocvC13Env{cm: cm, pk: pk, addr: addr}
	e.mine(t, nil)
	// fetch the gift elements with proofs at the tip
	_, cau, err := cm.UpdatesSince(types.ChainIndex{}, 100)
	if err != nil {
		t.Fatal(err)
	}
	byID := map[types.SiacoinOutputID]types.SiacoinElement{}
	for _, u := range cau {
		for id, sce := range byID {
			u.UpdateElementProof(&sce.StateElement)
			byID[id] = sce
		}
		for _, d := range u.SiacoinElementDiffs() {
			if d.Created && d.SiacoinElement.SiacoinOutput.Address == addr {
				byID[d.SiacoinElement.ID] = d.SiacoinElement.Copy()
			}
		}
	}
	for i := 0; i < gifts; i++ {
		e.gift = append(e.gift, byID[giftTxn.SiacoinOutputID(i)])
	}
	return e
}

func (e *gocvC13Env) mine(t *testing.T, v2txns []types.V2Transaction) {
	cs := e.cm.TipState()
	b := types.Block{
		ParentID:     cs.Index.ID,
		Timestamp:    types.CurrentTimestamp(),
		MinerPayouts: []types.SiacoinOutput{{Value: cs.BlockReward(), Address: frand.Entropy256()}},
	}
	for _, txn := range v2txns {
		b.MinerPayouts[0].Value = b.MinerPayouts[0].Value.Add(txn.MinerFee)
	}
	b.V2 = &types.V2BlockData{Height: cs.Index.Height + 1, Transactions: v2txns}
	b.V2.Commitment = cs.Commitment(b.MinerPayouts[0].Address, b.Transactions, b.V2Transactions())
	findBlockNonce(cs, &b)
	if err := e.cm.AddBlocks([]types.Block{b}); err != nil {
		t.Fatal(err)
	}
}

func (e *gocvC13Env) policy() types.SatisfiedPolicy {
	return types.SatisfiedPolicy{Policy: types.SpendPolicy{Type: types.PolicyTypeUnlockConditions(types.StandardUnlockConditions(e.pk.PublicKey()))}}
}

// spend builds a signed v2 transaction spending parents into `outs` equal outputs to the same address.
func (e *gocvC13Env) spend(parents []types.SiacoinElement, outs int) types.V2Transaction {
	var sum types.Currency
	var txn types.V2Transaction
	for _, p := range parents {
		sum = sum.Add(p.SiacoinOutput.Value)
		txn.SiacoinInputs = append(txn.SiacoinInputs, types.V2SiacoinInput{Parent: p.Copy(), SatisfiedPolicy: e.policy()})
	}
	per := sum.Div64(uint64(outs))
	for i := 0; i < outs; i++ {
		txn.SiacoinOutputs = append(txn.SiacoinOutputs, types.SiacoinOutput{Address: e.addr, Value: per})
	}
	txn.MinerFee = sum.Sub(per.Mul64(uint64(outs)))
	sig := e.pk.SignHash(e.cm.TipState().InputSigHash(txn))
	for i := range txn.SiacoinInputs {
		txn.SiacoinInputs[i].SatisfiedPolicy.Signatures = []types.Signature{sig}
	}
	return txn
}

// orderOK: every ephemeral input of a transaction in the set is created by an earlier one.
func gocvC13OrderOK(set []types.V2Transaction) string {
	created := map[types.SiacoinOutputID]bool{}
	for i := range set {
		for _, sci := range set[i].SiacoinInputs {
			if sci.Parent.StateElement.LeafIndex == types.UnassignedLeafIndex && !created[sci.Parent.ID] {
				return fmt.Sprintf("transaction %d (%v) spends ephemeral output %v before the transaction creating it", i, set[i].ID(), sci.Parent.ID)
			}
		}
		for j := range set[i].SiacoinOutputs {
			created[set[i].SiacoinOutputID(set[i].ID(), j)] = true
		}
	}
	return ""
}

func gocvC13Scenarios(t *testing.T) (cases, failures int) {
	report := func(name string, fails []string) {
		cases++
		if len(fails) > 0 {
			failures++
			t.Errorf("GOCV-REPLAY-FAIL scenario=%s: %s", name, strings.Join(fails, "; "))
		}
	}
	guard := func(name string, f func() []string) {
		defer func() {
			if r := recover(); r != nil {
				report(name, []string{fmt.Sprintf("panic: %v", r)})
			}
		}()
		report(name, f())
	}

	// parent-order, for both orders of the inputs of the child
	for _, swap := range []bool{false, true} {
		guard(fmt.Sprintf("parent-order swap=%v", swap), func() []string {
			e := gocvC13Setup(t, 1)
			B := e.spend([]types.SiacoinElement{e.gift[0]}, 2)
			A := e.spend([]types.SiacoinElement{B.EphemeralSiacoinOutput(0)}, 1)
			if _, err := e.cm.AddV2PoolTransactions(e.cm.Tip(), []types.V2Transaction{B, A}); err != nil {
				t.Fatal(err)
			}
			ins := []types.SiacoinElement{B.EphemeralSiacoinOutput(1), A.EphemeralSiacoinOutput(0)}
			if swap {
				ins[0], ins[1] = ins[1], ins[0]
			}
			T := e.spend(ins, 1)
			basis, set, err := e.cm.V2TransactionSet(e.cm.Tip(), T)
			if err != nil {
				return []string{"V2TransactionSet: " + err.Error()}
			}
			var fails []string
			if basis != e.cm.Tip() {
				fails = append(fails, "basis is not the tip")
			}
			if len(set) != 3 || set[2].ID() != T.ID() {
				fails = append(fails, fmt.Sprintf("expected the two parents followed by the transaction, got %d transactions", len(set)))
			}
			if s := gocvC13OrderOK(set); s != "" {
				fails = append(fails, s)
			}
			if _, err := e.cm.AddV2PoolTransactions(basis, set); err != nil {
				fails = append(fails, "the assembled set is rejected by the pool: "+err.Error())
			}
			return fails
		})
	}

	// deep-ancestors: a chain of pooled ancestors t1 <- t2 <- ... <- tn <- txn; the set must hold all of them
	for _, depth := range []int{1, 2, 3, 5} {
		guard(fmt.Sprintf("deep-ancestors depth=%d", depth), func() []string {
			e := gocvC13Setup(t, 1)
			var chain []types.V2Transaction
			parent := e.gift[0]
			for i := 0; i < depth; i++ {
				txn := e.spend([]types.SiacoinElement{parent}, 1)
				chain = append(chain, txn)
				parent = txn.EphemeralSiacoinOutput(0)
			}
			if _, err := e.cm.AddV2PoolTransactions(e.cm.Tip(), chain); err != nil {
				t.Fatal(err)
			}
			T := e.spend([]types.SiacoinElement{parent}, 1)
			basis, set, err := e.cm.V2TransactionSet(e.cm.Tip(), T)
			if err != nil {
				return []string{"V2TransactionSet: " + err.Error()}
			}
			var fails []string
			if len(set) != depth+1 {
				fails = append(fails, fmt.Sprintf("set has %d transactions, want the %d pooled ancestors and the transaction", len(set), depth))
			}
			if s := gocvC13OrderOK(set); s != "" {
				fails = append(fails, s)
			}
			if _, err := e.cm.AddV2PoolTransactions(basis, set); err != nil {
				fails = append(fails, "the assembled set is rejected by the pool: "+err.Error())
			}
			return fails
		})
	}

	// mixed-pools
	guard("mixed-pools", func() []string {
		e := gocvC13Setup(t, 2)
		// a v1 transaction in the pool creating output X
		v1 := types.Transaction{
			SiacoinInputs:  []types.SiacoinInput{{ParentID: e.gift[0].ID, UnlockConditions: types.StandardUnlockConditions(e.pk.PublicKey())}},
			SiacoinOutputs: []types.SiacoinOutput{{Address: e.addr, Value: e.gift[0].SiacoinOutput.Value}},
		}
		sig := e.pk.SignHash(e.cm.TipState().WholeSigHash(v1, types.Hash256(e.gift[0].ID), 0, 0, nil))
		v1.Signatures = []types.TransactionSignature{{ParentID: types.Hash256(e.gift[0].ID), CoveredFields: types.CoveredFields{WholeTransaction: true}, Signature: sig[:]}}
		if _, err := e.cm.AddPoolTransactions([]types.Transaction{v1}); err != nil {
			t.Fatal(err)
		}
		x := types.SiacoinElement{ID: v1.SiacoinOutputID(0), StateElement: types.StateElement{LeafIndex: types.UnassignedLeafIndex}, SiacoinOutput: v1.SiacoinOutputs[0]}
		T := e.spend([]types.SiacoinElement{x}, 1)
		_, set, err := e.cm.V2TransactionSet(e.cm.Tip(), T)
		var fails []string
		if err == nil {
			for _, txn := range set[:len(set)-1] {
				creates := false
				for j := range txn.SiacoinOutputs {
					if txn.SiacoinOutputID(txn.ID(), j) == x.ID {
						creates = true
					}
				}
				if !creates {
					fails = append(fails, fmt.Sprintf("set contains %v, which does not create the referenced output", txn.ID()))
				}
			}
		}
		// same with one unrelated v2 transaction at the same pool position
		U := e.spend([]types.SiacoinElement{e.gift[1]}, 1)
		if _, err := e.cm.AddV2PoolTransactions(e.cm.Tip(), []types.V2Transaction{U}); err != nil {
			t.Fatal(err)
		}
		_, set, err = e.cm.V2TransactionSet(e.cm.Tip(), T)
		if err == nil {
			for _, txn := range set[:len(set)-1] {
				if txn.ID() == U.ID() {
					fails = append(fails, "an unrelated pooled v2 transaction was returned as the parent (v1 pool position used as v2 pool position)")
				}
			}
		}
		return fails
	})

	// unknown-basis
	guard("unknown-basis", func() []string {
		e := gocvC13Setup(t, 1)
		T := e.spend([]types.SiacoinElement{e.gift[0]}, 1)
		before := T.DeepCopy()
		var fails []string
		bogus := types.ChainIndex{Height: e.cm.Tip().Height, ID: types.BlockID{1, 2, 3}}
		if _, err := e.cm.UpdateV2TransactionSet([]types.V2Transaction{T}, bogus, e.cm.Tip()); err == nil {
			fails = append(fails, "unknown from accepted")
		}
		if _, err := e.cm.UpdateV2TransactionSet([]types.V2Transaction{T}, e.cm.Tip(), bogus); err == nil {
			fails = append(fails, "unknown to accepted")
		}
		if _, _, err := e.cm.V2TransactionSet(bogus, T); err == nil {
			fails = append(fails, "unknown basis accepted by V2TransactionSet")
		}
		if !reflect.DeepEqual(before, T) {
			fails = append(fails, "caller's transaction modified by a rejected call")
		}
		return fails
	})

	// rebase across a block that confirms the parent
	guard("rebase", func() []string {
		e := gocvC13Setup(t, 2)
		old := e.cm.Tip()
		B := e.spend([]types.SiacoinElement{e.gift[0]}, 2)
		A := e.spend([]types.SiacoinElement{B.EphemeralSiacoinOutput(0)}, 1)
		C := e.spend([]types.SiacoinElement{e.gift[1]}, 1)
		in := []types.V2Transaction{B.DeepCopy(), A.DeepCopy(), C.DeepCopy()}
		e.mine(t, []types.V2Transaction{B})
		e.mine(t, nil)
		out, err := e.cm.UpdateV2TransactionSet(in, old, e.cm.Tip())
		if err != nil {
			return []string{"rebase failed: " + err.Error()}
		}
		var fails []string
		if len(out) != 2 || out[0].ID() != A.ID() || out[1].ID() != C.ID() {
			fails = append(fails, fmt.Sprintf("expected [A C] after B was confirmed, got %d transactions", len(out)))
		} else {
			if out[0].SiacoinInputs[0].Parent.StateElement.LeafIndex == types.UnassignedLeafIndex {
				fails = append(fails, "ephemeral input whose parent was confirmed still has no leaf index")
			}
			if _, err := e.cm.AddV2PoolTransactions(e.cm.Tip(), out); err != nil {
				fails = append(fails, "rebased set rejected at the target: "+err.Error())
			}
		}
		if !reflect.DeepEqual(in[1], A) || !reflect.DeepEqual(in[2], C) {
			// documented: the input may be modified only when from == to; otherwise the work is done on a deep copy
			fails = append(fails, "caller's transactions modified")
		}
		return fails
	})
	return
}

func TestGocvReplayC13(t *testing.T) {
	cases, failures := gocvC13Scenarios(t)
	fmt.Fprintf(os.Stdout, "GOCV-BOUNDED cases=%d failures=%d\n", cases, failures)
}
