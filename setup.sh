#!/bin/sh
# builds the verifier from files on disk only (offline)
set -e
cd "$(dirname "$0")"
. ./env.sh
mkdir -p bin evidence out
cd gocv && go build -o ../bin/gocv ./cmd/gocv
